//go:build verif

package daemon

import (
	"context"

	"github.com/AliyunContainerService/terway/pkg/eni"
	"github.com/AliyunContainerService/terway/pkg/k8s"
	"github.com/AliyunContainerService/terway/pkg/storage"
	"github.com/AliyunContainerService/terway/rpc"
	"github.com/AliyunContainerService/terway/types"
	"github.com/AliyunContainerService/terway/types/daemon"
)

// Accessors for the verification harness. No logic: they only expose unexported
// constructors and methods. Injected with go's -overlay; never present in the repository.

type SimService struct{ s *networkService }

func NewSimService(k k8s.Kubernetes, db storage.Storage, mgr *eni.Manager, mode string, ipam types.IPAMType, v4, v6, patchPodIPs bool) *SimService {
	return &SimService{s: &networkService{
		daemonMode:        mode,
		k8s:               k,
		resourceDB:        db,
		eniMgr:            mgr,
		enableIPv4:        v4,
		enableIPv6:        v6,
		ipamType:          ipam,
		enablePatchPodIPs: patchPodIPs,
	}}
}

func (s *SimService) Server() rpc.TerwayBackendServer { return s.s }
func (s *SimService) AllocIP(ctx context.Context, r *rpc.AllocIPRequest) (*rpc.AllocIPReply, error) {
	return s.s.AllocIP(ctx, r)
}
func (s *SimService) ReleaseIP(ctx context.Context, r *rpc.ReleaseIPRequest) (*rpc.ReleaseIPReply, error) {
	return s.s.ReleaseIP(ctx, r)
}
func (s *SimService) GetIPInfo(ctx context.Context, r *rpc.GetInfoRequest) (*rpc.GetInfoReply, error) {
	return s.s.GetIPInfo(ctx, r)
}
func (s *SimService) GCPods(ctx context.Context) error   { return s.s.gcPods(ctx) }
func (s *SimService) StartGCLoop(ctx context.Context)    { s.s.startGarbageCollectionLoop(ctx) }
func (s *SimService) Manager() *eni.Manager              { return s.s.eniMgr }
func (s *SimService) GetResourceMapping() ([]*rpc.ResourceMapping, error) {
	return s.s.GetResourceMapping()
}

func FilterENINotFoundForSim(podResources []daemon.PodResources, attached map[string]*daemon.ENI) []daemon.PodResources {
	return filterENINotFound(podResources, attached)
}

func GetPodResourcesForSim(list []interface{}) []daemon.PodResources { return getPodResources(list) }
