//go:build verif

package node

import (
	"time"

	"go.opentelemetry.io/otel/trace/noop"
	"k8s.io/apimachinery/pkg/runtime"
	"sigs.k8s.io/controller-runtime/pkg/client"

	register "github.com/AliyunContainerService/terway/pkg/controller"
	"github.com/AliyunContainerService/terway/pkg/vswitch"
)

// Accessors for the verification harness. No logic.

type nopRecorder struct{}

func (nopRecorder) Event(object runtime.Object, eventtype, reason, message string) {}
func (nopRecorder) Eventf(object runtime.Object, eventtype, reason, messageFmt string, args ...interface{}) {
}
func (nopRecorder) AnnotatedEventf(object runtime.Object, annotations map[string]string, eventtype, reason, messageFmt string, args ...interface{}) {
}

// NewReconcileNodeForSim builds the reconciler the way the controller's init() does, without a manager.
func NewReconcileNodeForSim(c client.Client, aliyun register.Interface, vsw *vswitch.SwitchPool, fullSync, gc time.Duration) *ReconcileNode {
	return &ReconcileNode{
		client:             c,
		scheme:             c.Scheme(),
		record:             nopRecorder{},
		aliyun:             aliyun,
		vswpool:            vsw,
		fullSyncNodePeriod: fullSync,
		gcPeriod:           gc,
		tracer:             noop.NewTracerProvider().Tracer("sim"),
		eniBatchSize:       5,
	}
}
