//go:build verif

package podeni

import (
	"context"

	"k8s.io/apimachinery/pkg/runtime"
	"sigs.k8s.io/controller-runtime/pkg/client"
	"sigs.k8s.io/controller-runtime/pkg/event"

	"github.com/AliyunContainerService/terway/pkg/apis/network.alibabacloud.com/v1beta1"
	register "github.com/AliyunContainerService/terway/pkg/controller"
	"github.com/AliyunContainerService/terway/pkg/controller/status"
)

// Accessors for the verification harness. No logic.

type nopRecorder struct{}

func (nopRecorder) Event(object runtime.Object, eventtype, reason, message string) {}
func (nopRecorder) Eventf(object runtime.Object, eventtype, reason, messageFmt string, args ...interface{}) {
}
func (nopRecorder) AnnotatedEventf(object runtime.Object, annotations map[string]string, eventtype, reason, messageFmt string, args ...interface{}) {
}

// NewReconcilePodENIForSim builds the reconciler the way the controller's init() does, without a manager.
func NewReconcilePodENIForSim(c client.Client, aliyun register.Interface, trunkMode, crdMode bool, cache *status.Cache[status.NodeStatus]) *ReconcilePodENI {
	return &ReconcilePodENI{
		client:          c,
		scheme:          c.Scheme(),
		record:          nopRecorder{},
		aliyun:          aliyun,
		trunkMode:       trunkMode,
		crdMode:         crdMode,
		nodeStatusCache: cache,
	}
}

// StartGCForSim starts the two collection loops, as Wrapper.Start does.
func (m *ReconcilePodENI) StartGCForSim(ctx context.Context) { m.gc(ctx) }

// UpdateEventPassesForSim is the update predicate of the controller's watch.
func UpdateEventPassesForSim(oldObj, newObj *v1beta1.PodENI) bool {
	return updateFunc(event.TypedUpdateEvent[*v1beta1.PodENI]{ObjectOld: oldObj, ObjectNew: newObj})
}
