//go:build verif

package pod

import (
	"k8s.io/apimachinery/pkg/runtime"
	"sigs.k8s.io/controller-runtime/pkg/client"

	register "github.com/AliyunContainerService/terway/pkg/controller"
	"github.com/AliyunContainerService/terway/pkg/vswitch"
)

// Accessors for the verification harness. No logic.

type nopRecorder struct{}

func (nopRecorder) Event(object runtime.Object, eventtype, reason, message string) {}
func (nopRecorder) Eventf(object runtime.Object, eventtype, reason, messageFmt string, args ...interface{}) {
}
func (nopRecorder) AnnotatedEventf(object runtime.Object, annotations map[string]string, eventtype, reason, messageFmt string, args ...interface{}) {
}

// NewReconcilePodForSim builds the reconciler the way NewReconcilePod does, without a manager.
func NewReconcilePodForSim(c client.Client, aliyun register.Interface, swPool *vswitch.SwitchPool, trunkMode, crdMode bool) *ReconcilePod {
	return &ReconcilePod{
		client:    c,
		scheme:    c.Scheme(),
		record:    nopRecorder{},
		aliyun:    aliyun,
		swPool:    swPool,
		trunkMode: trunkMode,
		crdMode:   crdMode,
	}
}

// ProcessPodForSim is the event predicate of the controller.
func ProcessPodForSim(o client.Object) bool { return processPod(o) }
