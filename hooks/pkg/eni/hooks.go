//go:build verif

package eni

import (
	"context"
	"sync"
	"time"

	"k8s.io/apimachinery/pkg/util/cache"
	"k8s.io/apimachinery/pkg/util/wait"
	"sigs.k8s.io/controller-runtime/pkg/client"

	networkv1beta1 "github.com/AliyunContainerService/terway/pkg/apis/network.alibabacloud.com/v1beta1"
	"github.com/AliyunContainerService/terway/types/daemon"

	"verif/sim/simrt"
)

// Accessors for the verification harness. No logic.

// SimPending reports the lengths of the two pending queues without mutating them.
func (l *Local) SimPending() (v4, v6 int) {
	return len(l.allocatingV4), len(l.allocatingV6)
}

// SimENIID returns the id of the interface this slot manages ("" if none).
func (l *Local) SimENIID() string {
	if l.eni == nil {
		return ""
	}
	return l.eni.ID
}

// SimLocal returns the Local behind a Trunk.
func (r *Trunk) SimLocal() *Local { return r.local }

// ResetGlobalsForSim resets package-level state between simulated runs.
func ResetGlobalsForSim() {
	invalidIPCache = cache.NewLRUExpireCache(100)
}

// SimCRDV2 is a CRDV2 whose Run starts the two periodic loops without a controller-runtime
// manager (the manager only provides the cached client, which the harness injects).
type SimCRDV2 struct {
	*CRDV2
	// CacheSync is the time the real Run spends waiting for the manager's cache before it starts
	// the loops (it decides the phase between these loops and the daemon's collection loop).
	CacheSync time.Duration
}

// NewCRDV2ForSim builds the CRD-mode interface over an injected client.
func NewCRDV2ForSim(c client.Client, nodeName string) *SimCRDV2 {
	return &SimCRDV2{CRDV2: &CRDV2{
		scheme:      c.Scheme(),
		client:      c,
		nodeName:    nodeName,
		deletedPods: make(map[string]*networkv1beta1.RuntimePodStatus),
	}}
}

// Run is the tail of (*CRDV2).Run: the same two loops with the same periods.
func (s *SimCRDV2) Run(ctx context.Context, podResources []daemon.PodResources, wg *sync.WaitGroup) error {
	r := s.CRDV2
	d := s.CacheSync
	simrt.Go(func() {
		if d > 0 {
			simrt.Sleep(d)
		}
		wait.UntilWithContext(ctx, func(ctx context.Context) {
			_ = r.syncNodeRuntime(ctx)
		}, 3*time.Second)
	})
	simrt.Go(func() {
		if d > 0 {
			simrt.Sleep(d)
		}
		wait.UntilWithContext(ctx, func(ctx context.Context) {
			_ = r.syncDeletedPods(ctx)
		}, 5*time.Minute)
	})
	return nil
}
