//go:build verif

package eni

import (
	"k8s.io/apimachinery/pkg/util/cache"
)

// Accessors for the verification harness. No logic.

// SimPending reports the lengths of the two pending queues without mutating them.
func (l *Local) SimPending() (v4, v6 int) {
	return len(l.allocatingV4), len(l.allocatingV6)
}

// SimENIID returns the id of the interface this slot manages ("" if none).
func (l *Local) SimENIID() string {
	if l.eni == nil {
		return ""
	}
	return l.eni.ID
}

// SimLocal returns the Local behind a Trunk.
func (r *Trunk) SimLocal() *Local { return r.local }

// ResetGlobalsForSim resets package-level state between simulated runs.
func ResetGlobalsForSim() {
	invalidIPCache = cache.NewLRUExpireCache(100)
}
