//go:build verif

package k8s

import (
	"sync"

	corev1 "k8s.io/api/core/v1"
	"k8s.io/apimachinery/pkg/runtime"
	"k8s.io/apimachinery/pkg/util/sets"
	"sigs.k8s.io/controller-runtime/pkg/client"

	"github.com/AliyunContainerService/terway/pkg/storage"
	"github.com/AliyunContainerService/terway/types"
)

// Accessors for the verification harness. No logic.

type nopRecorder struct{}

func (nopRecorder) Event(object runtime.Object, eventtype, reason, message string) {}
func (nopRecorder) Eventf(object runtime.Object, eventtype, reason, messageFmt string, args ...interface{}) {
}
func (nopRecorder) AnnotatedEventf(object runtime.Object, annotations map[string]string, eventtype, reason, messageFmt string, args ...interface{}) {
}

// NewForSim builds the daemon's Kubernetes helper over an injected client and pod cache.
func NewForSim(c client.Client, st storage.Storage, mode, nodeName, namespace string, node *corev1.Node, svcCIDR *types.IPNetSet, enableErdma bool) Kubernetes {
	return &k8s{
		client:                  c,
		mode:                    mode,
		node:                    node,
		nodeName:                nodeName,
		daemonNamespace:         namespace,
		storage:                 st,
		recorder:                nopRecorder{},
		Locker:                  &sync.RWMutex{},
		enableErdma:             enableErdma,
		svcCIDR:                 svcCIDR,
		statefulWorkloadKindSet: sets.New[string]("statefulset"),
	}
}

// CleanForSim runs one pass of the pod-cache cleaner.
func CleanForSim(k Kubernetes) error { return k.(*k8s).clean() }

// PodCacheSerializers returns the (de)serialisers of the on-disk pod cache.
func PodCacheSerializers() (storage.Serializer, storage.Deserializer) { return serialize, deserialize }
