//go:build verif

package storage

import "github.com/boltdb/bolt"

// BoltDBForSim exposes the bolt handle of a DiskStorage (nil for other implementations).
func BoltDBForSim(s Storage) *bolt.DB {
	if d, ok := s.(*DiskStorage); ok {
		return d.db
	}
	return nil
}
