package kit

import (
	"fmt"

	sdkerr "github.com/aliyun/alibaba-cloud-sdk-go/sdk/errors"
)

// CloudErr builds an error carrying a real Alibaba Cloud error code (the daemon and the
// controllers classify errors with apiErr.ErrorCodeIs, which unwraps to this SDK type).
func CloudErr(code, msg string) error {
	return sdkerr.NewServerError(400, fmt.Sprintf(`{"Code":%q,"Message":%q,"RequestId":"sim"}`, code, msg), "")
}
