package kit

import (
	"net/netip"

	"github.com/AliyunContainerService/terway/rpc"
)

// ReservedGateway is an independent evaluator: the third-from-last address of a subnet.
func ReservedGateway(pf netip.Prefix) netip.Addr {
	pf = pf.Masked()
	b := pf.Addr().AsSlice()
	bits := len(b) * 8
	for i := pf.Bits(); i < bits; i++ {
		b[i/8] |= 1 << (7 - uint(i%8))
	}
	last, _ := netip.AddrFromSlice(b)
	return last.Prev().Prev()
}

// CheckNetConf is the C12 monitor applied to every successful AllocIP reply.
func CheckNetConf(run *Run, pod string, reply *rpc.AllocIPReply, wantV4, wantV6 bool) {
	run.Eval()
	defaults, primaryIf := 0, 0
	for _, nc := range reply.NetConfs {
		if nc.DefaultRoute {
			defaults++
		}
		if nc.IfName == "" || nc.IfName == "eth0" {
			primaryIf++
		}
		if nc.BasicInfo == nil || nc.BasicInfo.PodIP == nil || nc.BasicInfo.PodCIDR == nil || nc.BasicInfo.GatewayIP == nil {
			run.Violate("C12", "netconf", "netconf-incomplete", "reply for %s lacks basic info: %v", pod, nc)
			continue
		}
		chk := func(ipS, cidrS, gwS, fam string) {
			if ipS == "" {
				return
			}
			ip, err1 := netip.ParseAddr(ipS)
			pf, err2 := netip.ParsePrefix(cidrS)
			gw, err3 := netip.ParseAddr(gwS)
			if err1 != nil || err2 != nil || err3 != nil {
				run.Violate("C12", "netconf", "netconf-unparsable-"+fam, "reply for %s: ip=%q cidr=%q gw=%q", pod, ipS, cidrS, gwS)
				return
			}
			if !pf.Contains(ip) {
				run.Violate("C12", "netconf", "netconf-ip-outside-subnet-"+fam, "reply for %s: %s not in %s", pod, ip, pf)
			}
			if want := ReservedGateway(pf); gw != want {
				run.Violate("C12", "netconf", "netconf-wrong-gateway-"+fam, "reply for %s: gateway %s, subnet %s reserves %s", pod, gw, pf, want)
			}
			if gw == ip {
				run.Violate("C12", "netconf", "netconf-gateway-equals-ip-"+fam, "reply for %s: gateway %s equals pod address", pod, gw)
			}
		}
		chk(nc.BasicInfo.PodIP.IPv4, nc.BasicInfo.PodCIDR.IPv4, nc.BasicInfo.GatewayIP.IPv4, "v4")
		chk(nc.BasicInfo.PodIP.IPv6, nc.BasicInfo.PodCIDR.IPv6, nc.BasicInfo.GatewayIP.IPv6, "v6")
		if (nc.IfName == "" || nc.IfName == "eth0") && (wantV4 != (nc.BasicInfo.PodIP.IPv4 != "") || wantV6 != (nc.BasicInfo.PodIP.IPv6 != "")) {
			run.Violate("C12", "netconf", "netconf-family-mismatch", "reply for %s (v4=%v v6=%v wanted) has ips %q/%q", pod, wantV4, wantV6, nc.BasicInfo.PodIP.IPv4, nc.BasicInfo.PodIP.IPv6)
		}
	}
	if defaults != 1 {
		run.Violate("C12", "netconf", "netconf-default-route-count", "reply for %s has %d default-route interfaces", pod, defaults)
	}
	if primaryIf < 1 {
		run.Violate("C12", "netconf", "netconf-no-primary-interface", "reply for %s names no primary interface", pod)
	}
}
