package kit

import (
	"context"
	"encoding/json"
	"fmt"
	"reflect"
	"sort"
	"strings"
	"time"

	corev1 "k8s.io/api/core/v1"
	apierrors "k8s.io/apimachinery/pkg/api/errors"
	"k8s.io/apimachinery/pkg/api/meta"
	"k8s.io/apimachinery/pkg/fields"
	"k8s.io/apimachinery/pkg/labels"
	"k8s.io/apimachinery/pkg/runtime"
	"k8s.io/apimachinery/pkg/runtime/schema"
	"sigs.k8s.io/controller-runtime/pkg/client"
	"sigs.k8s.io/controller-runtime/pkg/client/fake"
	"sigs.k8s.io/controller-runtime/pkg/client/interceptor"

	"verif/sim/simrt"
)

// APIFault is the outcome the fault plan picks for one API call.
type APIFault int

const (
	APIOk        APIFault = iota
	APIErrBefore          // error, nothing happened
	APIErrAfter           // write applied, error returned
	APIConflict           // spurious conflict, nothing happened
)

// SimAPI wraps controller-runtime's fake client (real library code) so that every call is
// a scheduling point, can fail, returns lists in seeded order and reports writes to oracles.
type SimAPI struct {
	Inner  client.WithWatch
	Client client.WithWatch
	Direct client.WithWatch
	Run    *Run
	// Decide picks the fault for a call ("get", "list", "create", "update", "patch", "delete",
	// "status-update", "status-patch"); nil means no faults.
	Decide func(op string, obj runtime.Object) APIFault
	// OnWrite is called (holding the token) after a write took effect, with the object as stored.
	OnWrite func(op string, obj client.Object)
	// BeforeWrite is called before a write is attempted.
	BeforeWrite func(op string, obj client.Object)
	// FilterPodsByNode makes List honour a raw spec.nodeName field selector like the real API server.
	Calls map[string]int

	// ---- informer cache model (opt-in, see EnableCache): reads are served from what the watch
	// has delivered so far, writes go to the API server; events fire on delivery
	Lag       func(kind string) time.Duration
	OnDeliver func(kind string, key client.ObjectKey, obj client.Object)
	cacheOn   bool
	cache     map[string]client.Object // kind/ns/name -> delivered version (nil: delivered as absent)
	known     map[string]bool
	queue     []delivery
	lastAt    map[string]time.Time
	seq       int
	wake      chan struct{}
	pumping   bool
}

type delivery struct {
	at   time.Time
	seq  int
	kind string
	key  client.ObjectKey
	obj  client.Object // nil: the object is gone
}

// NewSimAPI builds the wrapped client.
func NewSimAPI(run *Run, scheme *runtime.Scheme, statusSubresources []client.Object, objs ...client.Object) *SimAPI {
	b := fake.NewClientBuilder().WithScheme(scheme).WithObjects(objs...).
		WithIndex(&corev1.Pod{}, "spec.nodeName", func(o client.Object) []string {
			if p, ok := o.(*corev1.Pod); ok {
				return []string{p.Spec.NodeName}
			}
			return nil
		})
	if len(statusSubresources) > 0 {
		b = b.WithStatusSubresource(statusSubresources...)
	}
	a := &SimAPI{Run: run, Calls: map[string]int{}}
	a.Inner = b.Build()
	// Direct: the same API server with the same faults, reads not through the informer cache
	// (for parties that ask the API server itself, e.g. client-go Get calls)
	a.Direct = interceptor.NewClient(a.Inner, interceptor.Funcs{
		Get: func(ctx context.Context, c client.WithWatch, key client.ObjectKey, obj client.Object, opts ...client.GetOption) error {
			return a.getx(true, ctx, c, key, obj, opts...)
		},
		List: func(ctx context.Context, c client.WithWatch, list client.ObjectList, opts ...client.ListOption) error {
			return a.listx(true, ctx, c, list, opts...)
		},
		Create:            a.create,
		Delete:            a.delete,
		Update:            a.update,
		Patch:             a.patch,
		SubResourceUpdate: a.subUpdate,
		SubResourcePatch:  a.subPatch,
	})
	a.Client = interceptor.NewClient(a.Inner, interceptor.Funcs{
		Get:               a.get,
		List:              a.list,
		Create:            a.create,
		Delete:            a.delete,
		Update:            a.update,
		Patch:             a.patch,
		SubResourceUpdate: a.subUpdate,
		SubResourcePatch:  a.subPatch,
	})
	return a
}

// KindOf is the Go type name of an API object (Pod, PodENI, PodENIList, ...).
func KindOf(obj runtime.Object) string { return kindOf(obj) }

func kindOf(obj runtime.Object) string {
	t := reflect.TypeOf(obj)
	for t.Kind() == reflect.Pointer {
		t = t.Elem()
	}
	return t.Name()
}

func (a *SimAPI) decide(op string, obj runtime.Object) APIFault {
	a.Calls[op+":"+kindOf(obj)]++
	if a.Decide == nil {
		return APIOk
	}
	return a.Decide(op, obj)
}

func injected(op string) error {
	return apierrors.NewInternalError(fmt.Errorf("injected api failure (%s)", op))
}

func conflictErr(obj client.Object) error {
	return apierrors.NewConflict(schema.GroupResource{Resource: kindOf(obj)}, obj.GetName(), fmt.Errorf("injected conflict"))
}

func (a *SimAPI) get(ctx context.Context, c client.WithWatch, key client.ObjectKey, obj client.Object, opts ...client.GetOption) error {
	return a.getx(false, ctx, c, key, obj, opts...)
}

func (a *SimAPI) getx(direct bool, ctx context.Context, c client.WithWatch, key client.ObjectKey, obj client.Object, opts ...client.GetOption) error {
	simrt.Yield("api.get")
	switch a.decide("get", obj) {
	case APIErrBefore, APIErrAfter:
		a.Run.Fault("api.get.err")
		a.Run.S.Log("api", "get %s %s -> injected error", kindOf(obj), key.Name)
		return injected("get")
	}
	if a.cacheOn && !direct {
		if v, ok := a.cached(tkey(obj), key); ok {
			if v == nil {
				a.Run.S.Log("api", "get %s %s -> not in cache", kindOf(obj), key.Name)
				return apierrors.NewNotFound(schema.GroupResource{Resource: kindOf(obj)}, key.Name)
			}
			copyInto(v, obj)
			a.Run.S.Log("api", "get %s %s -> cached rv=%s", kindOf(obj), key.Name, v.GetResourceVersion())
			return nil
		}
	}
	err := c.Get(ctx, key, obj)
	a.Run.S.Log("api", "get %s %s -> %v", kindOf(obj), key.Name, err != nil)
	return err
}

func (a *SimAPI) list(ctx context.Context, c client.WithWatch, list client.ObjectList, opts ...client.ListOption) error {
	return a.listx(false, ctx, c, list, opts...)
}

func (a *SimAPI) listx(direct bool, ctx context.Context, c client.WithWatch, list client.ObjectList, opts ...client.ListOption) error {
	simrt.Yield("api.list")
	switch a.decide("list", list) {
	case APIErrBefore, APIErrAfter:
		a.Run.Fault("api.list.err")
		return injected("list")
	}
	lo := &client.ListOptions{}
	lo.ApplyOptions(opts)
	var rawField fields.Selector
	if lo.Raw != nil && lo.Raw.FieldSelector != "" && lo.FieldSelector == nil {
		if fs, err := fields.ParseSelector(lo.Raw.FieldSelector); err == nil {
			rawField = fs
		}
	}
	var pass []client.ListOption
	if lo.LabelSelector != nil {
		pass = append(pass, client.MatchingLabelsSelector{Selector: lo.LabelSelector})
	}
	if lo.FieldSelector != nil {
		pass = append(pass, client.MatchingFieldsSelector{Selector: lo.FieldSelector})
	}
	if lo.Namespace != "" {
		pass = append(pass, client.InNamespace(lo.Namespace))
	}
	if err := c.List(ctx, list, pass...); err != nil {
		return err
	}
	a.Run.S.Log("api", "list %s", kindOf(list))
	items, err := meta.ExtractList(list)
	if err != nil {
		return err
	}
	if rawField != nil {
		kept := items[:0]
		for _, it := range items {
			if matchRawField(it, rawField) {
				kept = append(kept, it)
			}
		}
		items = kept
	}
	if a.cacheOn && !direct {
		items = a.mergeCached(list, items, lo, rawField)
	}
	// canonical order, then a seeded permutation
	sort.SliceStable(items, func(i, j int) bool {
		mi, _ := meta.Accessor(items[i])
		mj, _ := meta.Accessor(items[j])
		if mi.GetNamespace() != mj.GetNamespace() {
			return mi.GetNamespace() < mj.GetNamespace()
		}
		return mi.GetName() < mj.GetName()
	})
	for i := len(items) - 1; i > 0; i-- {
		j := simrt.Choose(i+1, "list")
		items[i], items[j] = items[j], items[i]
	}
	return meta.SetList(list, items)
}

func matchRawField(obj runtime.Object, sel fields.Selector) bool {
	// only what terway uses: spec.nodeName on pods, metadata.name
	b, err := json.Marshal(obj)
	if err != nil {
		return true
	}
	var m map[string]any
	if json.Unmarshal(b, &m) != nil {
		return true
	}
	set := fields.Set{}
	if spec, ok := m["spec"].(map[string]any); ok {
		if nn, ok := spec["nodeName"].(string); ok {
			set["spec.nodeName"] = nn
		}
	}
	if md, ok := m["metadata"].(map[string]any); ok {
		if n, ok := md["name"].(string); ok {
			set["metadata.name"] = n
		}
		if n, ok := md["namespace"].(string); ok {
			set["metadata.namespace"] = n
		}
	}
	return sel.Matches(set)
}

func (a *SimAPI) written(op string, obj client.Object) {
	if a.OnWrite != nil {
		a.OnWrite(op, obj)
	}
}

func (a *SimAPI) write(op string, obj client.Object, do func() error) error {
	simrt.Yield("api." + op)
	if a.BeforeWrite != nil {
		a.BeforeWrite(op, obj)
	}
	switch a.decide(op, obj) {
	case APIErrBefore:
		a.Run.Fault("api." + op + ".err-before")
		return injected(op)
	case APIConflict:
		a.Run.Fault("api." + op + ".conflict")
		return conflictErr(obj)
	case APIErrAfter:
		a.prefetch(obj)
		if err := do(); err != nil {
			return err
		}
		a.written(op, obj)
		a.observe(obj)
		a.Run.Fault("api." + op + ".err-after")
		return injected(op)
	}
	a.prefetch(obj)
	if err := do(); err != nil {
		a.Run.S.Log("api", "%s %s %s -> %v", op, kindOf(obj), obj.GetName(), err)
		return err
	}
	a.Run.S.Log("api", "%s %s %s -> ok", op, kindOf(obj), obj.GetName())
	a.written(op, obj)
	a.observe(obj)
	return nil
}

// ---------------------------------------------------------------------------------------
// informer cache model

// EnableCache switches reads to the informer-cache model: Get and List return what the watch
// has delivered so far; a write becomes visible lag(kind) later (per kind in write order), and
// OnDeliver fires at that moment (that is when a controller's event handler runs). Objects the
// cache machinery has never seen a write for are read from the API server (the initial list).
func (a *SimAPI) EnableCache(lag func(kind string) time.Duration, onDeliver func(kind string, key client.ObjectKey, obj client.Object)) {
	a.cacheOn, a.Lag, a.OnDeliver = true, lag, onDeliver
	a.cache, a.known, a.lastAt = map[string]client.Object{}, map[string]bool{}, map[string]time.Time{}
	a.wake = make(chan struct{}, 1)
}

// Peek reads an object the way a cached read would (delivered version, or the API server for
// objects the cache machinery has not seen a write for) without being a scheduling point.
func (a *SimAPI) Peek(obj client.Object) bool {
	key := client.ObjectKeyFromObject(obj)
	if a.cacheOn {
		if v, ok := a.cached(tkey(obj), key); ok {
			if v == nil {
				return false
			}
			copyInto(v, obj)
			return true
		}
	}
	return a.Inner.Get(context.Background(), key, obj) == nil
}

// ResetCache is a restart of the process that owns the informers: the next reads list from the
// API server again, undelivered changes are dropped with the old watch.
func (a *SimAPI) ResetCache() {
	if !a.cacheOn {
		return
	}
	a.cache, a.known, a.lastAt = map[string]client.Object{}, map[string]bool{}, map[string]time.Time{}
	a.queue = nil
}

func ckey(kind string, key client.ObjectKey) string {
	return kind + "/" + key.Namespace + "/" + key.Name
}

// tkey names an object's Go type including its package (two API groups have a kind Node).
func tkey(obj runtime.Object) string {
	t := reflect.TypeOf(obj)
	for t.Kind() == reflect.Pointer {
		t = t.Elem()
	}
	return t.PkgPath() + "." + t.Name()
}

// tkeyOfItems names the item type of a list object.
func tkeyOfItems(list runtime.Object) string {
	t := reflect.TypeOf(list)
	for t.Kind() == reflect.Pointer {
		t = t.Elem()
	}
	if f, ok := t.FieldByName("Items"); ok {
		it := f.Type.Elem()
		for it.Kind() == reflect.Pointer {
			it = it.Elem()
		}
		return it.PkgPath() + "." + it.Name()
	}
	return ""
}

func (a *SimAPI) cached(kind string, key client.ObjectKey) (client.Object, bool) {
	k := ckey(kind, key)
	if !a.known[k] {
		return nil, false
	}
	return a.cache[k], true
}

func copyInto(src, dst client.Object) {
	reflect.ValueOf(dst).Elem().Set(reflect.ValueOf(src.DeepCopyObject()).Elem())
}

func (a *SimAPI) truthOf(obj client.Object) client.Object {
	cp := reflect.New(reflect.TypeOf(obj).Elem()).Interface().(client.Object)
	if err := a.Inner.Get(context.Background(), client.ObjectKeyFromObject(obj), cp); err != nil {
		return nil
	}
	return cp
}

// prefetch makes the cache hold the version before the first write it gets to see.
func (a *SimAPI) prefetch(obj client.Object) {
	if !a.cacheOn {
		return
	}
	k := ckey(tkey(obj), client.ObjectKeyFromObject(obj))
	if a.known[k] {
		return
	}
	a.known[k] = true
	a.cache[k] = a.truthOf(obj)
}

// observe schedules the delivery of the object's current state to the cache.
func (a *SimAPI) observe(obj client.Object) {
	if !a.cacheOn {
		return
	}
	kind, key := tkey(obj), client.ObjectKeyFromObject(obj)
	at := time.Now().Add(a.Lag(kindOf(obj)))
	if at.Before(a.lastAt[kind]) {
		at = a.lastAt[kind]
	}
	a.lastAt[kind] = at
	a.seq++
	a.queue = append(a.queue, delivery{at: at, seq: a.seq, kind: kind, key: key, obj: a.truthOf(obj)})
	sort.SliceStable(a.queue, func(i, j int) bool {
		if !a.queue[i].at.Equal(a.queue[j].at) {
			return a.queue[i].at.Before(a.queue[j].at)
		}
		return a.queue[i].seq < a.queue[j].seq
	})
	if !a.pumping {
		a.pumping = true
		a.Run.S.GoNamed("informer", 0, a.pump)
	} else {
		select {
		case a.wake <- struct{}{}:
		default:
		}
	}
}

// DirectWrite is for the harness's own writes (through Inner): the cache sees them like any other.
func (a *SimAPI) DirectWrite(obj client.Object, do func() error) error {
	a.prefetch(obj)
	err := do()
	if err == nil {
		a.observe(obj)
	}
	return err
}

func (a *SimAPI) pump() {
	for {
		if len(a.queue) == 0 {
			simrt.Recv(a.wake)
			continue
		}
		if d := time.Until(a.queue[0].at); d > 0 {
			t := time.NewTimer(d)
			simrt.Select(false, simrt.RecvCase(a.wake), simrt.RecvCase(t.C))
			t.Stop()
			continue
		}
		d := a.queue[0]
		a.queue = a.queue[1:]
		a.cache[ckey(d.kind, d.key)] = d.obj
		if d.obj == nil {
			a.Run.S.Log("informer", "%s %s gone", d.kind, d.key.Name)
		} else {
			a.Run.S.Log("informer", "%s %s rv=%s", d.kind, d.key.Name, d.obj.GetResourceVersion())
		}
		if a.OnDeliver != nil {
			a.OnDeliver(d.kind[strings.LastIndex(d.kind, ".")+1:], d.key, d.obj)
		}
		simrt.Yield("informer")
	}
}

// mergeCached replaces what a List read from the API server by what the cache holds.
func (a *SimAPI) mergeCached(list client.ObjectList, items []runtime.Object, lo *client.ListOptions, rawField fields.Selector) []runtime.Object {
	kind := tkeyOfItems(list)
	keep := func(o client.Object) bool {
		if lo.Namespace != "" && o.GetNamespace() != lo.Namespace {
			return false
		}
		if lo.LabelSelector != nil && !lo.LabelSelector.Matches(labels.Set(o.GetLabels())) {
			return false
		}
		if lo.FieldSelector != nil && !matchRawField(o, lo.FieldSelector) {
			return false
		}
		if rawField != nil && !matchRawField(o, rawField) {
			return false
		}
		return true
	}
	seen := map[string]bool{}
	out := items[:0]
	for _, it := range items {
		o, ok := it.(client.Object)
		if !ok {
			out = append(out, it)
			continue
		}
		k := ckey(kind, client.ObjectKeyFromObject(o))
		seen[k] = true
		if !a.known[k] {
			out = append(out, it)
			continue
		}
		if v := a.cache[k]; v != nil && keep(v) {
			out = append(out, v.DeepCopyObject())
		}
	}
	ks := make([]string, 0, len(a.cache))
	for k := range a.cache {
		ks = append(ks, k)
	}
	sort.Strings(ks)
	for _, k := range ks {
		v := a.cache[k]
		if v == nil || seen[k] || tkey(v) != kind || !keep(v) {
			continue
		}
		out = append(out, v.DeepCopyObject())
	}
	return out
}

func (a *SimAPI) create(ctx context.Context, c client.WithWatch, obj client.Object, opts ...client.CreateOption) error {
	return a.write("create", obj, func() error { return c.Create(ctx, obj, opts...) })
}

func (a *SimAPI) delete(ctx context.Context, c client.WithWatch, obj client.Object, opts ...client.DeleteOption) error {
	return a.write("delete", obj, func() error { return c.Delete(ctx, obj, opts...) })
}

func (a *SimAPI) update(ctx context.Context, c client.WithWatch, obj client.Object, opts ...client.UpdateOption) error {
	return a.write("update", obj, func() error { return c.Update(ctx, obj, opts...) })
}

func (a *SimAPI) patch(ctx context.Context, c client.WithWatch, obj client.Object, patch client.Patch, opts ...client.PatchOption) error {
	return a.write("patch", obj, func() error { return c.Patch(ctx, obj, patch, opts...) })
}

func (a *SimAPI) subUpdate(ctx context.Context, c client.Client, sub string, obj client.Object, opts ...client.SubResourceUpdateOption) error {
	return a.write(sub+"-update", obj, func() error { return c.SubResource(sub).Update(ctx, obj, opts...) })
}

func (a *SimAPI) subPatch(ctx context.Context, c client.Client, sub string, obj client.Object, patch client.Patch, opts ...client.SubResourcePatchOption) error {
	return a.write(sub+"-patch", obj, func() error { return c.SubResource(sub).Patch(ctx, obj, patch, opts...) })
}
