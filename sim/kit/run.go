// Package kit holds what the simulated worlds share: the run wrapper around a synctest
// bubble, violation/result/report types, the worker loop, replay files and minimisation.
package kit

import (
	"encoding/json"
	"fmt"
	mrand "math/rand"
	"math/rand/v2"
	"os"
	"runtime"
	"runtime/debug"
	"sort"
	"strconv"
	"strings"
	"sync"
	"sync/atomic"
	"testing"
	"testing/synctest"
	"time"

	"verif/sim/simrt"
)

// Violation is one oracle failure.
type Violation struct {
	Property    string `json:"property"`
	Oracle      string `json:"oracle"`
	Fingerprint string `json:"fingerprint"` // oracle id + failing call site / history shape (known-findings key)
	Msg         string `json:"msg"`
	Seq         int    `json:"seq"`
}

// Result is what one simulated run produced.
type Result struct {
	Violations []Violation    `json:"violations,omitempty"`
	Steps      int            `json:"steps"`
	FakeSec    float64        `json:"fake_s"`
	Signature  uint64         `json:"signature"`
	Digest     uint64         `json:"digest"`
	Faults     map[string]int `json:"faults,omitempty"`
	Probes     map[string]int `json:"probes,omitempty"`
	Stop       string         `json:"stop"`
	Infra      string         `json:"infra,omitempty"` // non-empty: infrastructure trouble, run is not a verdict
	Untracked  int            `json:"untracked"`
	Concurrent bool           `json:"concurrent"` // at least one scheduling decision had >1 candidates
	OracleEval int            `json:"oracle_evals"`
	Trace      []int32        `json:"-"`
	Log        []simrt.Event  `json:"-"`
}

// Run carries per-run state shared by a world's stubs and oracles.
type Run struct {
	S   *simrt.Sim
	Res *Result
}

// Violate records a violation (first per fingerprint only).
func (r *Run) Violate(prop, oracle, fingerprint, format string, args ...any) {
	for _, v := range r.Res.Violations {
		if v.Fingerprint == fingerprint && v.Property == prop {
			return
		}
	}
	msg := fmt.Sprintf(format, args...)
	seq := r.S.SeqNo()
	r.S.Log("VIOLATION", "%s %s %s", prop, fingerprint, msg)
	r.Res.Violations = append(r.Res.Violations, Violation{Property: prop, Oracle: oracle, Fingerprint: fingerprint, Msg: msg, Seq: seq})
}

// Fault counts a fault kind that actually fired.
func (r *Run) Fault(kind string) { r.Res.Faults[kind]++ }

// Probe counts a "rare condition reached" marker.
func (r *Run) Probe(name string) { r.Res.Probes[name]++ }

// Eval counts an oracle evaluation.
func (r *Run) Eval() { r.Res.OracleEval++ }

type countingChooser struct {
	inner simrt.Chooser
	multi bool
}

func (c *countingChooser) Intn(n int, tag string) int {
	if tag == "sched" && n > 1 {
		c.multi = true
	}
	return c.inner.Intn(n, tag)
}

// Execute runs body as the main task of a fresh simulation inside a fresh bubble.
func Execute(t *testing.T, chooser simrt.Chooser, keepLog bool, maxSteps int, body func(r *Run)) *Result {
	res := &Result{Faults: map[string]int{}, Probes: map[string]int{}}
	cc := &countingChooser{inner: chooser}
	var sim *simrt.Sim
	bubblePanic := func() (p any) {
		defer func() {
			p = recover()
		}()
		synctest.Test(t, func(t *testing.T) {
			sim = simrt.New(cc)
			mrand.Seed(int64(cc.Intn(1<<30, "randseed")))
			sim.KeepLog = keepLog
			if maxSteps > 0 {
				sim.MaxSteps = maxSteps
			}
			run := &Run{S: sim, Res: res}
			sim.Run(func() { body(run) })
			res.FakeSec = sim.Now().Seconds()
		})
		return nil
	}()
	if sim == nil {
		res.Infra = fmt.Sprintf("bubble did not start: %v", bubblePanic)
		return res
	}
	res.Steps = sim.Steps
	res.Signature = sim.Signature()
	res.Digest = sim.Digest()
	res.Stop = sim.StopReason()
	res.Untracked = sim.Untracked
	res.Concurrent = cc.multi
	res.Log = sim.Events
	if sim.Panic != nil {
		res.Stop = "panic"
		res.Violations = append(res.Violations, Violation{
			Property: "*", Oracle: "panic", Fingerprint: "panic:" + firstFrame(sim.PanicStack),
			Msg: fmt.Sprintf("panic in task %s: %v\n%s", sim.PanicTask, sim.Panic, sim.PanicStack), Seq: sim.Seq,
		})
	}
	if bubblePanic != nil {
		msg := fmt.Sprint(bubblePanic)
		switch {
		case strings.Contains(msg, "main bubble goroutine has exited"):
			// expected: abandoned tasks are leaked by design
		case strings.Contains(msg, "all goroutines in bubble are blocked"):
			res.Stop = "deadlock"
			res.Infra = "deadlock: " + strings.Join(sim.LiveBlocked(), "; ") + "\n" + sim.Dump()
		default:
			res.Infra = "bubble panic: " + msg + "\n" + string(debug.Stack())
		}
	}
	sim.Finish()
	return res
}

func firstFrame(stack string) string {
	lines := strings.Split(stack, "\n")
	for i, l := range lines {
		if strings.Contains(l, "panic(") && i+2 < len(lines) {
			// the frame after panic()
			for j := i + 2; j < len(lines); j += 2 {
				f := strings.TrimSpace(lines[j])
				if strings.Contains(f, "terway") || strings.Contains(f, "verif/") {
					if k := strings.Index(f, "("); k > 0 {
						f = f[:k]
					}
					return f
				}
			}
		}
	}
	return "unknown"
}

// ---------------------------------------------------------------------------------------
// worker loop, replay files, minimisation

// World is one simulated world; Scenario is its explicit, JSON-serialisable input.
type World interface {
	Name() string
	// Generate draws a scenario for the given property profile and tier.
	Generate(rng *rand.Rand, prop, tier string) any
	// Decode parses a scenario stored in a replay file.
	Decode(raw json.RawMessage) (any, error)
	// Run executes one scenario.
	Run(t *testing.T, sc any, chooser simrt.Chooser, keepLog bool) *Result
	// Shrink proposes smaller scenarios (may be nil).
	Shrink(sc any) []any
	// Components documents real code vs stubs (for the evidence file).
	Components() map[string][]string
}

// Expander is implemented by worlds that derive further runs from a base run (crash-point
// enumeration): every derived scenario is executed with the base run's choices as prefix.
type Expander interface {
	Expand(sc any, base *Result, prop, tier string, rng *rand.Rand) []any
}

// Replay is the on-disk form of one failing (or sampled) run.
type Replay struct {
	Property    string          `json:"property"`
	World       string          `json:"world"`
	Oracle      string          `json:"oracle"`
	Fingerprint string          `json:"fingerprint"`
	Msg         string          `json:"msg"`
	Seed        uint64          `json:"seed"`
	RunIndex    int             `json:"run_index"`
	Scenario    json.RawMessage `json:"scenario"`
	Trace       []int32         `json:"trace"`
	Digest      uint64          `json:"digest"`
	Seq         int             `json:"seq"`
	Minimised   bool            `json:"minimised"`
	OrigOps     int             `json:"orig_trace_len"`
	SrcDigest   string          `json:"src_digest"`
}

// Report is what one worker process writes.
type Report struct {
	Property   string              `json:"property"`
	World      string              `json:"world"`
	Tier       string              `json:"tier"`
	Seed       uint64              `json:"seed"`
	Worker     int                 `json:"worker"`
	Runs       int                 `json:"runs"`
	NonTrivial int                 `json:"nontrivial"`
	Steps      int64               `json:"steps"`
	FakeSec    float64             `json:"fake_s"`
	WallSec    float64             `json:"wall_s"`
	Faults     map[string]int      `json:"faults"`
	Probes     map[string]int      `json:"probes"`
	Stops      map[string]int      `json:"stops"`
	Signatures []uint64            `json:"signatures"`
	OracleEval int64               `json:"oracle_evals"`
	Untracked  int                 `json:"untracked"`
	Violations []Replay            `json:"violations"`
	OtherProps map[string]int      `json:"other_property_violations"`
	Infra      []string            `json:"infra"`
	Hung       bool                `json:"hung"`
	Samples    []json.RawMessage   `json:"samples"`
	Components map[string][]string `json:"components"`
}

func envInt(name string, def int) int {
	if v := os.Getenv(name); v != "" {
		if n, err := strconv.Atoi(v); err == nil {
			return n
		}
	}
	return def
}

func envU64(name string, def uint64) uint64 {
	if v := os.Getenv(name); v != "" {
		if n, err := strconv.ParseUint(v, 10, 64); err == nil {
			return n
		}
	}
	return def
}

// SubSeed derives the per-run seed.
func SubSeed(seed uint64, idx int) uint64 {
	x := seed*0x9e3779b97f4a7c15 + uint64(idx)*0xbf58476d1ce4e5b9 + 0x94d049bb133111eb
	x ^= x >> 30
	x *= 0xbf58476d1ce4e5b9
	x ^= x >> 27
	x *= 0x94d049bb133111eb
	x ^= x >> 31
	return x
}

// RunOne generates and executes run idx of seed.
func RunOne(t *testing.T, w World, prop, tier string, seed uint64, idx int, keepLog bool) (any, *Result) {
	ss := SubSeed(seed, idx)
	rng := rand.New(rand.NewPCG(ss, 0x5eed))
	sc := w.Generate(rng, prop, tier)
	ch := simrt.NewRandChooser(ss ^ 0xabcdef)
	ch.Record = true
	res := w.Run(t, sc, ch, keepLog)
	res.Trace = ch.Trace
	return sc, res
}

// Worker is the body of TestWorker in every world package.
func Worker(t *testing.T, w World) {
	prop := os.Getenv("VERIF_PROP")
	tier := os.Getenv("VERIF_TIER")
	if tier == "" {
		tier = "quick"
	}
	seed := envU64("VERIF_SEED", 1)
	worker := envInt("VERIF_WORKER", 0)
	workers := envInt("VERIF_WORKERS", 1)
	budget := time.Duration(envInt("VERIF_BUDGET_S", 20)) * time.Second
	maxRuns := envInt("VERIF_MAX_RUNS", 1<<30)
	out := os.Getenv("VERIF_OUT")
	replayDir := os.Getenv("VERIF_REPLAY_DIR")
	src := os.Getenv("VERIF_SRC_DIGEST")
	if prop == "" || out == "" {
		t.Skip("VERIF_PROP / VERIF_OUT not set")
	}
	rep := &Report{Property: prop, World: w.Name(), Tier: tier, Seed: seed, Worker: worker,
		Faults: map[string]int{}, Probes: map[string]int{}, Stops: map[string]int{}, OtherProps: map[string]int{},
		Components: w.Components()}
	sigs := map[uint64]bool{}
	seenFP := map[string]bool{}
	start := time.Now()
	// real-time watchdog (outside any bubble): a run that does not finish is infrastructure
	// trouble or a spin loop in the code under test; either way it is not a verdict. What was
	// collected so far is written out and the process ends.
	var curIdx atomic.Int64
	var curStart atomic.Int64
	curStart.Store(time.Now().UnixNano())
	var repMu sync.Mutex
	go func() {
		for {
			time.Sleep(2 * time.Second)
			if time.Since(time.Unix(0, curStart.Load())) > 240*time.Second {
				buf := make([]byte, 1<<20)
				n := runtime.Stack(buf, true)
				st := string(buf[:n])
				if i := strings.Index(st, "simrt.(*Sim).Run"); i > 0 && len(st) > 6000 {
					st = st[:6000]
				}
				fmt.Fprintf(os.Stderr, "HANG run=%d\n%s\n", curIdx.Load(), st)
				repMu.Lock()
				rep.Infra = append(rep.Infra, fmt.Sprintf("run %d did not finish within 240 s of wall time (hang or spin loop); worker stopped", curIdx.Load()))
				rep.Hung = true
				rep.WallSec = time.Since(start).Seconds()
				b, _ := json.Marshal(rep)
				_ = os.WriteFile(out, b, 0o644)
				os.Exit(0)
			}
		}
	}()
	for idx := worker; rep.Runs < maxRuns; idx += workers {
		if time.Since(start) > budget {
			break
		}
		curIdx.Store(int64(idx))
		curStart.Store(time.Now().UnixNano())
		repMu.Lock()
		repMu.Unlock()
		sc, res := RunOne(t, w, prop, tier, seed, idx, false)
		queue := []struct {
			sc  any
			res *Result
		}{{sc, res}}
		if ex, ok := w.(Expander); ok && res.Infra == "" {
			ss := SubSeed(seed, idx)
			for k, d := range ex.Expand(sc, res, prop, tier, rand.New(rand.NewPCG(ss, 0xe4))) {
				if time.Since(start) > budget*2 {
					break
				}
				curStart.Store(time.Now().UnixNano())
				pc := &simrt.PrefixChooser{Prefix: res.Trace, Rand: simrt.NewRandChooser(ss + uint64(k)*7919 + 1)}
				dres := w.Run(t, d, pc, false)
				dres.Trace = pc.Trace
				queue = append(queue, struct {
					sc  any
					res *Result
				}{d, dres})
			}
		}
		for _, item := range queue {
			sc, res := item.sc, item.res
			rep.Runs++
			if os.Getenv("VERIF_VERBOSE") != "" {
				fmt.Printf("run %d: steps=%d fake=%.0fs stop=%s viol=%d infra=%q\n", idx, res.Steps, res.FakeSec, res.Stop, len(res.Violations), firstLine(res.Infra))
			}
			rep.Steps += int64(res.Steps)
			rep.FakeSec += res.FakeSec
			rep.OracleEval += int64(res.OracleEval)
			rep.Untracked += res.Untracked
			rep.Stops[res.Stop]++
			for k, v := range res.Faults {
				rep.Faults[k] += v
			}
			for k, v := range res.Probes {
				rep.Probes[k] += v
			}
			if res.Infra != "" {
				if len(rep.Infra) < 5 {
					rep.Infra = append(rep.Infra, fmt.Sprintf("run %d: %s", idx, res.Infra))
				}
				continue
			}
			if res.Concurrent && res.OracleEval > 0 {
				if !sigs[res.Signature] {
					sigs[res.Signature] = true
				}
			}
			if len(rep.Samples) < 2 && res.Concurrent {
				b, _ := json.Marshal(sc)
				rep.Samples = append(rep.Samples, b)
			}
			for _, v := range res.Violations {
				if v.Property != prop && v.Property != "*" {
					rep.OtherProps[v.Property+":"+v.Fingerprint]++
					continue
				}
				if seenFP[v.Fingerprint] {
					continue
				}
				seenFP[v.Fingerprint] = true
				scb, _ := json.Marshal(sc)
				rp := Replay{Property: prop, World: w.Name(), Oracle: v.Oracle, Fingerprint: v.Fingerprint, Msg: v.Msg,
					Seed: seed, RunIndex: idx, Scenario: scb, Trace: res.Trace, Digest: res.Digest, Seq: v.Seq,
					OrigOps: len(res.Trace), SrcDigest: src}
				// a listed known finding is only reported: no minimisation, no replay file
				// (its replay is kept under findings/)
				listed := false
				for _, k := range strings.Split(os.Getenv("VERIF_KNOWN_FPS"), ",") {
					if k != "" && k == v.Fingerprint {
						listed = true
					}
				}
				if os.Getenv("VERIF_NO_MINIMISE") == "" && !listed {
					rp = Minimise(t, w, rp, 60*time.Second)
				}
				if replayDir != "" && !listed {
					name := fmt.Sprintf("%s/%s-%s-s%d-r%d.json", replayDir, prop, sanitize(v.Fingerprint), seed, idx)
					b, _ := json.MarshalIndent(rp, "", " ")
					os.WriteFile(name, b, 0o644)
					rp.Msg = rp.Msg + "\n@file " + name
				}
				rep.Violations = append(rep.Violations, rp)
			}
		}
	}
	rep.NonTrivial = len(sigs)
	for s := range sigs {
		rep.Signatures = append(rep.Signatures, s)
	}
	sort.Slice(rep.Signatures, func(i, j int) bool { return rep.Signatures[i] < rep.Signatures[j] })
	rep.WallSec = time.Since(start).Seconds()
	b, _ := json.Marshal(rep)
	if err := os.WriteFile(out, b, 0o644); err != nil {
		t.Fatal(err)
	}
}

func firstLine(s string) string {
	if i := strings.Index(s, "\n"); i >= 0 {
		return s[:i]
	}
	return s
}

func sanitize(s string) string {
	var b strings.Builder
	for _, c := range s {
		if c >= 'a' && c <= 'z' || c >= 'A' && c <= 'Z' || c >= '0' && c <= '9' || c == '-' || c == '_' {
			b.WriteRune(c)
		} else {
			b.WriteByte('_')
		}
		if b.Len() > 60 {
			break
		}
	}
	return b.String()
}

// replayOnce executes a scenario with a recorded trace (non-strict) and tells whether the
// same fingerprint fails again.
func replayOnce(t *testing.T, w World, sc any, trace []int32, prop, fp string, strict bool) (*Result, []int32, bool, string) {
	ch := &simrt.ReplayChooser{Vals: trace, Strict: strict, Record: true}
	res := w.Run(t, sc, ch, false)
	for _, v := range res.Violations {
		if v.Fingerprint == fp && (v.Property == prop || v.Property == "*") {
			return res, ch.Trace, true, ch.Diverged
		}
	}
	return res, ch.Trace, false, ch.Diverged
}

// Minimise shrinks scenario and trace while the same fingerprint keeps failing.
func Minimise(t *testing.T, w World, rp Replay, budget time.Duration) Replay {
	deadline := time.Now().Add(budget)
	sc, err := w.Decode(rp.Scenario)
	if err != nil {
		return rp
	}
	trace := rp.Trace
	// sanity: must reproduce
	if _, tr, ok, _ := replayOnce(t, w, sc, trace, rp.Property, rp.Fingerprint, false); !ok {
		return rp
	} else {
		trace = tr
	}
	// 1. scenario level
	progress := true
	for progress && time.Now().Before(deadline) {
		progress = false
		for _, cand := range w.Shrink(sc) {
			if time.Now().After(deadline) {
				break
			}
			// try the recorded trace first, then a few fresh schedules
			if _, tr, ok, _ := replayOnce(t, w, cand, trace, rp.Property, rp.Fingerprint, false); ok {
				sc, trace, progress = cand, tr, true
				break
			}
			found := false
			for k := 0; k < 4 && !found; k++ {
				ch := simrt.NewRandChooser(rp.Seed*31 + uint64(k) + uint64(len(trace)))
				ch.Record = true
				res := w.Run(t, cand, ch, false)
				for _, v := range res.Violations {
					if v.Fingerprint == rp.Fingerprint {
						sc, trace, progress, found = cand, ch.Trace, true, true
						break
					}
				}
			}
			if found {
				break
			}
		}
	}
	// 2. trace level: zero chunks, drop the tail
	for chunk := len(trace) / 2; chunk >= 1 && time.Now().Before(deadline); chunk /= 2 {
		for lo := 0; lo < len(trace) && time.Now().Before(deadline); lo += chunk {
			hi := min(lo+chunk, len(trace))
			allZero := true
			for _, v := range trace[lo:hi] {
				if v != 0 {
					allZero = false
					break
				}
			}
			if allZero {
				continue
			}
			cand := append([]int32(nil), trace...)
			for i := lo; i < hi; i++ {
				cand[i] = 0
			}
			if _, tr, ok, _ := replayOnce(t, w, sc, cand, rp.Property, rp.Fingerprint, false); ok {
				trace = tr
			}
		}
	}
	// drop trailing zeros (an exhausted trace yields 0)
	for len(trace) > 0 && trace[len(trace)-1] == 0 {
		trace = trace[:len(trace)-1]
	}
	// 3. confirm twice, strictly
	r1, _, ok1, _ := replayOnce(t, w, sc, trace, rp.Property, rp.Fingerprint, false)
	r2, _, ok2, _ := replayOnce(t, w, sc, trace, rp.Property, rp.Fingerprint, false)
	if !ok1 || !ok2 || r1.Digest != r2.Digest {
		return rp
	}
	scb, _ := json.Marshal(sc)
	out := rp
	out.Scenario = scb
	out.Trace = trace
	out.Digest = r1.Digest
	out.Minimised = true
	for _, v := range r1.Violations {
		if v.Fingerprint == rp.Fingerprint {
			out.Msg = v.Msg
			out.Seq = v.Seq
		}
	}
	return out
}

// ReplayFile is the body of TestReplay in every world package.
func ReplayFile(t *testing.T, w World) {
	path := os.Getenv("VERIF_REPLAY")
	if path == "" {
		t.Skip("VERIF_REPLAY not set")
	}
	b, err := os.ReadFile(path)
	if err != nil {
		fmt.Printf("INFRA cannot read replay: %v\n", err)
		os.Exit(2)
	}
	var rp Replay
	if err := json.Unmarshal(b, &rp); err != nil {
		fmt.Printf("INFRA bad replay file: %v\n", err)
		os.Exit(2)
	}
	sc, err := w.Decode(rp.Scenario)
	if err != nil {
		fmt.Printf("INFRA bad scenario: %v\n", err)
		os.Exit(2)
	}
	ch := &simrt.ReplayChooser{Vals: rp.Trace, Record: true}
	res := w.Run(t, sc, ch, true)
	if os.Getenv("VERIF_REPLAY_LOG") != "" {
		for _, e := range res.Log {
			fmt.Printf("%6d %10.3fs t%-3d %-14s %s\n", e.Seq, e.At.Seconds(), e.Task, e.Site, e.Msg)
		}
	}
	if res.Infra != "" {
		fmt.Printf("INFRA %s\n", res.Infra)
		os.Exit(2)
	}
	for _, v := range res.Violations {
		if v.Fingerprint == rp.Fingerprint {
			same := res.Digest == rp.Digest
			fmt.Printf("REPRODUCED property=%s fingerprint=%s seq=%d digest_match=%v\n%s\n", rp.Property, v.Fingerprint, v.Seq, same, v.Msg)
			if !same && rp.SrcDigest == os.Getenv("VERIF_SRC_DIGEST") {
				fmt.Printf("INFRA replay diverged: digest %x, recorded %x\n", res.Digest, rp.Digest)
				os.Exit(2)
			}
			fmt.Printf("VIOLATION property=%s replay=%s\n", rp.Property, path)
			os.Exit(1)
		}
	}
	fmt.Printf("NOT-REPRODUCED property=%s fingerprint=%s (violations seen: %d)\n", rp.Property, rp.Fingerprint, len(res.Violations))
	os.Exit(0)
}

// Determinism is the body of TestDeterminism in every world package: every run index is
// executed twice in this process and the digests are written out so that processes started
// with other GOMAXPROCS values (and run orders) can be compared byte for byte.
func Determinism(t *testing.T, w World) {
	prop := os.Getenv("VERIF_PROP")
	out := os.Getenv("VERIF_OUT")
	if prop == "" || out == "" {
		t.Skip("VERIF_PROP / VERIF_OUT not set")
	}
	seed := envU64("VERIF_SEED", 1)
	n := envInt("VERIF_MAX_RUNS", 200)
	reverse := os.Getenv("VERIF_DET_REVERSE") != ""
	tier := os.Getenv("VERIF_TIER")
	if tier == "" {
		tier = "quick"
	}
	digests := make([]string, n)
	for k := 0; k < n; k++ {
		idx := k
		if reverse {
			idx = n - 1 - k
		}
		_, r1 := RunOne(t, w, prop, tier, seed, idx, false)
		_, r2 := RunOne(t, w, prop, tier, seed, idx, false)
		if r1.Digest != r2.Digest || r1.Steps != r2.Steps || len(r1.Trace) != len(r2.Trace) {
			fmt.Printf("NONDETERMINISTIC run %d: digest %x/%x steps %d/%d trace %d/%d\n", idx, r1.Digest, r2.Digest, r1.Steps, r2.Steps, len(r1.Trace), len(r2.Trace))
			t.Fail()
		}
		digests[idx] = fmt.Sprintf("%d %x %d %d %s", idx, r1.Digest, r1.Steps, len(r1.Violations), r1.Stop)
	}
	if err := os.WriteFile(out, []byte(strings.Join(digests, "\n")+"\n"), 0o644); err != nil {
		t.Fatal(err)
	}
}

// Diverge runs one run index twice (after VERIF_DIVERGE_WARM earlier runs, to reproduce
// cross-run effects) with event logs and prints where they first differ.
func Diverge(t *testing.T, w World) {
	prop := os.Getenv("VERIF_PROP")
	if prop == "" || os.Getenv("VERIF_DIVERGE") == "" {
		t.Skip("VERIF_PROP / VERIF_DIVERGE not set")
	}
	idx := envInt("VERIF_DIVERGE", 0)
	seed := envU64("VERIF_SEED", 1)
	for k := envInt("VERIF_DIVERGE_WARM", 0); k > 0; k-- {
		RunOne(t, w, prop, "quick", seed, idx-k, false)
	}
	sc, r1 := RunOne(t, w, prop, "quick", seed, idx, true)
	_, r2 := RunOne(t, w, prop, "quick", seed, idx, true)
	b, _ := json.Marshal(sc)
	fmt.Printf("scenario: %s\n", b)
	n := min(len(r1.Log), len(r2.Log))
	for i := 0; i < n; i++ {
		if evs(r1.Log[i]) != evs(r2.Log[i]) {
			for j := max(0, i-12); j <= min(n-1, i+3); j++ {
				mark := "  "
				if j == i {
					mark = "!!"
				}
				fmt.Printf("%s A %s\n%s B %s\n", mark, evs(r1.Log[j]), mark, evs(r2.Log[j]))
			}
			return
		}
	}
	fmt.Printf("logs agree on the first %d events; lengths %d / %d; digests %x / %x\n", n, len(r1.Log), len(r2.Log), r1.Digest, r2.Digest)
}

func evs(e simrt.Event) string {
	return fmt.Sprintf("%6d %10.3fs t%-3d %-12s %s", e.Seq, e.At.Seconds(), e.Task, e.Site, e.Msg)
}
