// Package worldv is World V: the real vswitch.SwitchPool (TTL cache, single-flight lookups,
// selection policies, Block) used by concurrent callers on the fake clock, against a stub
// VPC API. The oracle is a reference model of what the pool can believe about every vSwitch.
package worldv

import (
	"context"
	"encoding/json"
	"errors"
	"fmt"
	"math/rand/v2"
	"testing"
	"time"

	"github.com/aliyun/alibaba-cloud-sdk-go/services/vpc"
	"github.com/go-logr/logr"
	logf "sigs.k8s.io/controller-runtime/pkg/log"

	"github.com/AliyunContainerService/terway/pkg/vswitch"

	"verif/sim/kit"
	"verif/sim/simrt"
)

func init() { logf.SetLogger(logr.Discard()) }

type VSw struct {
	ID   string `json:"id"`
	Zone string `json:"zone"`
	Free int64  `json:"free"`
}

type Op struct {
	Kind       string   `json:"kind"` // getone getbyid block sleep setfree
	Policy     string   `json:"policy,omitempty"`
	Zone       string   `json:"zone,omitempty"`
	IgnoreZone bool     `json:"ignore_zone,omitempty"`
	IDs        []string `json:"ids,omitempty"`
	Shared     int      `json:"shared,omitempty"` // >0: use shared candidate list number Shared-1
	ID         string   `json:"id,omitempty"`
	SleepS     int      `json:"sleep_s,omitempty"`
	Free       int64    `json:"free,omitempty"`
}

type Scenario struct {
	VSwitches []VSw      `json:"vswitches"`
	Shared    [][]string `json:"shared"`
	Callers   [][]Op     `json:"callers"`
	Faults    []string   `json:"faults"` // outcome of the n-th DescribeVSwitchByID: "", "err", "slow"
	TTL       string     `json:"ttl"`
}

type VSwitchWorld struct{}

func (VSwitchWorld) Name() string { return "V" }
func (VSwitchWorld) Components() map[string][]string {
	return map[string][]string{
		"real": {"pkg/vswitch SwitchPool (GetOne, GetByID, Block, policies)", "apimachinery LRUExpireCache on the fake clock", "golang.org/x/sync/singleflight (un-instrumented)"},
		"stub": {"client.VPC DescribeVSwitchByID", "callers (pkg/factory/aliyun, node and pod controllers) modelled as tasks issuing GetOne/Block"},
	}
}
func (VSwitchWorld) Decode(raw json.RawMessage) (any, error) {
	sc := &Scenario{}
	return sc, json.Unmarshal(raw, sc)
}

func oneOf[T any](rng *rand.Rand, xs ...T) T { return xs[rng.IntN(len(xs))] }

func (VSwitchWorld) Generate(rng *rand.Rand, prop, tier string) any {
	sc := &Scenario{TTL: oneOf(rng, "10m", "10m", "1m")}
	n := 2 + rng.IntN(4)
	var ids []string
	for i := 0; i < n; i++ {
		v := VSw{ID: fmt.Sprintf("vsw-%d", i), Zone: oneOf(rng, "a", "a", "b"), Free: int64(rng.IntN(5))}
		if rng.IntN(3) == 0 {
			v.Free = int64(10 + rng.IntN(10))
		}
		sc.VSwitches = append(sc.VSwitches, v)
		ids = append(ids, v.ID)
	}
	ids = append(ids, "vsw-missing")
	sub := func() []string {
		k := 1 + rng.IntN(len(ids))
		p := rng.Perm(len(ids))
		var out []string
		for _, i := range p[:k] {
			out = append(out, ids[i])
		}
		return out
	}
	for i, k := 0, rng.IntN(3); i < k; i++ {
		sc.Shared = append(sc.Shared, sub())
	}
	nc := 1 + rng.IntN(3)
	for c := 0; c < nc; c++ {
		var ops []Op
		for j, k := 0, 2+rng.IntN(6); j < k; j++ {
			op := Op{Kind: oneOf(rng, "getone", "getone", "getone", "getone", "getbyid", "block", "sleep", "setfree")}
			switch op.Kind {
			case "getone":
				op.Policy = oneOf(rng, "ordered", "most", "random", "")
				op.Zone = oneOf(rng, "a", "a", "b", "c")
				op.IgnoreZone = rng.IntN(3) == 0
				if len(sc.Shared) > 0 && rng.IntN(2) == 0 {
					op.Shared = 1 + rng.IntN(len(sc.Shared))
				} else {
					op.IDs = sub()
				}
			case "getbyid", "block":
				op.ID = oneOf(rng, ids...)
			case "sleep":
				op.SleepS = oneOf(rng, 1, 30, 61, 400, 601, 1300)
			case "setfree":
				op.ID = oneOf(rng, ids...)
				op.Free = int64(rng.IntN(4))
			}
			ops = append(ops, op)
		}
		sc.Callers = append(sc.Callers, ops)
	}
	rate := oneOf(rng, 0.0, 0.1, 0.3)
	for i := 0; i < 40; i++ {
		f := ""
		if rng.Float64() < rate {
			f = oneOf(rng, "err", "slow")
		}
		sc.Faults = append(sc.Faults, f)
	}
	return sc
}

func (VSwitchWorld) Shrink(scAny any) []any {
	sc := scAny.(*Scenario)
	clone := func() *Scenario {
		b, _ := json.Marshal(sc)
		c := &Scenario{}
		_ = json.Unmarshal(b, c)
		return c
	}
	var out []any
	for i := range sc.Callers {
		if len(sc.Callers) > 1 {
			c := clone()
			c.Callers = append(c.Callers[:i], c.Callers[i+1:]...)
			out = append(out, c)
		}
		for j := range sc.Callers[i] {
			c := clone()
			c.Callers[i] = append(c.Callers[i][:j], c.Callers[i][j+1:]...)
			out = append(out, c)
		}
	}
	for i, f := range sc.Faults {
		if f != "" {
			c := clone()
			c.Faults[i] = ""
			out = append(out, c)
		}
	}
	return out
}

// ---------------------------------------------------------------------------------------

type belief struct {
	known  bool
	zone   string
	free   int64
	expiry time.Time
}

type world struct {
	run   *kit.Run
	sc    *Scenario
	pool  *vswitch.SwitchPool
	ttl   time.Duration
	cloud map[string]*VSw
	calls int
	// reference model of the cache: id -> belief; history of every change (for calls that overlap others)
	model   map[string]*belief
	changes []change
	shared  [][]string
	tainted bool
}

type change struct {
	at   time.Time
	seq  int
	id   string
	free int64 // -1: lookup failed / unknown
	zone string
}

func (w *world) DescribeVSwitchByID(ctx context.Context, id string) (*vpc.VSwitch, error) {
	simrt.Yield("vpc.describe")
	n := w.calls
	w.calls++
	fault := ""
	if n < len(w.sc.Faults) {
		fault = w.sc.Faults[n]
	}
	lat := 50 * time.Millisecond
	if fault == "slow" {
		lat = 5 * time.Second
		w.run.Fault("vpc.slow")
	}
	simrt.Sleep(lat)
	v := w.cloud[id]
	if fault == "err" || v == nil {
		if fault == "err" {
			w.run.Fault("vpc.err")
		}
		w.run.S.Log("vpc", "describe %s -> error", id)
		w.changes = append(w.changes, change{at: time.Now(), seq: w.run.S.SeqNo(), id: id, free: -1})
		return nil, errors.New("simulated lookup failure")
	}
	w.run.S.Log("vpc", "describe %s -> zone=%s free=%d", id, v.Zone, v.Free)
	// the pool caches this answer right after we return (no scheduling point in between)
	w.model[id] = &belief{known: true, zone: v.Zone, free: v.Free, expiry: time.Now().Add(w.ttl)}
	w.changes = append(w.changes, change{at: time.Now(), seq: w.run.S.SeqNo(), id: id, free: v.Free, zone: v.Zone})
	return &vpc.VSwitch{VSwitchId: v.ID, ZoneId: v.Zone, AvailableIpAddressCount: v.Free, CidrBlock: "10.0.0.0/16"}, nil
}

// current returns what the pool believes about id now (nil: no entry, a lookup will happen).
func (w *world) current(id string) *belief {
	b := w.model[id]
	if b == nil || !b.known || time.Now().After(b.expiry) { // an entry is still served at the very instant it expires
		return nil
	}
	return b
}

// possible lists the free counts the pool may have used for id during a call that started at
// sequence number from: the belief at the start plus every change since. -1 stands for
// "unknown / lookup failed" (the candidate is skipped).
func (w *world) possible(id string, start *belief, from time.Time) []int64 {
	var out []int64
	if start != nil {
		out = append(out, start.free)
	}
	for _, c := range w.changes {
		// by fake time, not by sequence number: the answer of a lookup is shared (single-flight)
		// with callers that arrive until the flight is cleaned up, which happens at the same fake
		// instant as the answer but a few scheduling steps later
		if c.id == id && !c.at.Before(from) {
			out = append(out, c.free)
		}
	}
	return out
}

func (w *world) doGetOne(op Op, caller int) {
	ids := op.IDs
	if op.Shared > 0 {
		ids = w.shared[op.Shared-1]
	}
	before := append([]string{}, ids...)
	start := map[string]*belief{}
	for _, id := range before {
		if b := w.current(id); b != nil {
			cp := *b
			start[id] = &cp
		}
	}
	from := time.Now()
	opts := &vswitch.SelectOptions{IgnoreZone: op.IgnoreZone, VSwitchSelectPolicy: vswitch.SelectionPolicy(op.Policy)}
	sw, err := w.pool.GetOne(context.Background(), w, op.Zone, ids, opts)
	w.run.Eval()
	res := "<nil>"
	if sw != nil {
		res = fmt.Sprintf("%s zone=%s free=%d", sw.ID, sw.Zone, sw.AvailableIPCount)
	}
	w.run.S.Log("caller", "c%d GetOne(zone=%s ids=%v policy=%q ignoreZone=%v) -> %s err=%v", caller, op.Zone, before, op.Policy, op.IgnoreZone, res, err != nil)
	// the caller's list is untouched (all policies)
	same := len(ids) == len(before)
	for i := range before {
		if same && ids[i] != before[i] {
			same = false
		}
	}
	if w.tainted {
		return // a candidate list was modified under other callers: later judgements would only echo that
	}
	if !same {
		w.tainted = true
		w.run.Violate("C17", "side-effect", "candidate-list-modified@"+op.Policy, "GetOne(policy=%q) changed the caller's candidate list from %v to %v", op.Policy, before, ids)
		return
	}
	if err != nil || sw == nil {
		if err == nil {
			w.run.Violate("C17", "result", "nil-without-error", "GetOne returned neither a vSwitch nor an error")
		}
		// an error is legitimate only if no candidate could have been eligible
		for _, id := range before {
			poss := w.possible(id, start[id], from)
			zone := ""
			if v := w.cloud[id]; v != nil {
				zone = v.Zone
			}
			inZone := zone == op.Zone || op.IgnoreZone
			allGood := len(poss) > 0 && inZone
			for _, f := range poss {
				if f <= 0 {
					allGood = false
				}
			}
			if allGood {
				w.run.Violate("C17", "result", "eligible-candidate-not-chosen", "GetOne(zone=%s ids=%v policy=%q ignoreZone=%v) failed although %s was in zone with free addresses under every view the pool could have had (%v)", op.Zone, before, op.Policy, op.IgnoreZone, id, poss)
			}
		}
		return
	}
	w.run.Probe("getone-ok")
	in := false
	pos := -1
	for i, id := range before {
		if id == sw.ID {
			in, pos = true, i
		}
	}
	if !in {
		w.run.Violate("C17", "result", "result-not-in-candidate-list", "GetOne returned %s which is not among %v", sw.ID, before)
		return
	}
	if sw.Zone != op.Zone && !op.IgnoreZone {
		w.run.Violate("C17", "result", "result-in-wrong-zone", "GetOne(zone=%s, no fallback) returned %s in zone %s", op.Zone, sw.ID, sw.Zone)
	}
	if sw.AvailableIPCount <= 0 {
		w.run.Violate("C17", "result", "result-without-free-addresses", "GetOne returned %s with %d free addresses", sw.ID, sw.AvailableIPCount)
	}
	if v := w.cloud[sw.ID]; v != nil && v.Zone != sw.Zone {
		w.run.Violate("C17", "result", "result-zone-corrupted", "GetOne returned %s with zone %s, the cloud says %s", sw.ID, sw.Zone, v.Zone)
	}
	// the returned count is one the pool could have believed
	ok := false
	for _, f := range w.possible(sw.ID, start[sw.ID], from) {
		if f == sw.AvailableIPCount {
			ok = true
		}
	}
	if !ok {
		w.run.Violate("C17", "block", "blocked-or-stale-vswitch-returned", "GetOne returned %s with %d free addresses, but the pool could only have believed %v (blocked entries stay at 0 until they expire)", sw.ID, sw.AvailableIPCount, w.possible(sw.ID, start[sw.ID], from))
	}
	if sw.Zone != op.Zone && op.IgnoreZone {
		// fallback only when no in-zone candidate was eligible under some possible view
		for _, id := range before {
			v := w.cloud[id]
			if v == nil || v.Zone != op.Zone {
				continue
			}
			poss := w.possible(id, start[id], from)
			always := len(poss) > 0
			for _, f := range poss {
				if f <= 0 {
					always = false
				}
			}
			if always {
				w.run.Violate("C17", "policy", "fallback-although-zone-candidate-eligible", "GetOne(zone=%s, fallback allowed) returned out-of-zone %s although in-zone %s had free addresses under every possible view %v", op.Zone, sw.ID, id, poss)
			}
		}
		return
	}
	switch op.Policy {
	case "ordered", "":
		// first eligible in the caller's order: every earlier in-zone candidate must have been ineligible under some view
		for _, id := range before[:pos] {
			v := w.cloud[id]
			if v == nil || v.Zone != op.Zone {
				continue
			}
			poss := w.possible(id, start[id], from)
			always := len(poss) > 0
			for _, f := range poss {
				if f <= 0 {
					always = false
				}
			}
			if always {
				w.run.Violate("C17", "policy", "ordered-skipped-eligible-candidate", "policy ordered returned %s although the earlier candidate %s was in zone with free addresses under every possible view %v (list %v)", sw.ID, id, poss, before)
			}
		}
	case "most":
		// the pool sorts by one view and returns by another: compare the best view of the result
		// with the worst view of the rival
		best := sw.AvailableIPCount
		for _, f := range w.possible(sw.ID, start[sw.ID], from) {
			if f > best {
				best = f
			}
		}
		for _, id := range before {
			v := w.cloud[id]
			if id == sw.ID || v == nil || v.Zone != op.Zone {
				continue
			}
			poss := w.possible(id, start[id], from)
			always := len(poss) > 0
			for _, f := range poss {
				if f <= best {
					always = false
				}
			}
			if always {
				w.run.Violate("C17", "policy", "most-did-not-pick-maximum", "policy most returned %s (best view %d free) although in-zone %s had more under every possible view %v", sw.ID, best, id, poss)
			}
		}
	}
}

func (w *world) main() {
	var err error
	w.pool, err = vswitch.NewSwitchPool(100, w.sc.TTL)
	if err != nil {
		w.run.Res.Infra = err.Error()
		return
	}
	w.ttl, _ = time.ParseDuration(w.sc.TTL)
	for i := range w.sc.VSwitches {
		v := w.sc.VSwitches[i]
		w.cloud[v.ID] = &v
	}
	for _, s := range w.sc.Shared {
		w.shared = append(w.shared, append([]string{}, s...))
	}
	done := make(chan struct{}, len(w.sc.Callers))
	for ci, ops := range w.sc.Callers {
		ci, ops := ci, ops
		w.run.S.GoNamed(fmt.Sprintf("caller%d", ci), 0, func() {
			defer func() { done <- struct{}{} }()
			for _, op := range ops {
				switch op.Kind {
				case "getone":
					w.doGetOne(op, ci)
				case "getbyid":
					sw, err := w.pool.GetByID(context.Background(), w, op.ID)
					w.run.Eval()
					if err == nil && sw != nil {
						if v := w.cloud[op.ID]; v == nil || sw.ID != op.ID || sw.Zone != v.Zone {
							w.run.Violate("C17", "result", "getbyid-wrong-answer", "GetByID(%s) returned %+v", op.ID, sw)
						}
					}
				case "block":
					simrt.Yield("block")
					// Block only acts on an existing entry; it keeps the zone and re-arms the TTL
					if b := w.current(op.ID); b != nil {
						w.model[op.ID] = &belief{known: true, zone: b.zone, free: 0, expiry: time.Now().Add(w.ttl)}
						w.changes = append(w.changes, change{at: time.Now(), seq: w.run.S.SeqNo(), id: op.ID, free: 0, zone: b.zone})
						w.run.Probe("block-applied")
					}
					w.pool.Block(op.ID)
					w.run.S.Log("caller", "c%d Block(%s)", ci, op.ID)
				case "sleep":
					simrt.Sleep(time.Duration(op.SleepS) * time.Second)
				case "setfree":
					if v := w.cloud[op.ID]; v != nil {
						v.Free = op.Free
						w.run.S.Log("cloud", "%s free=%d", op.ID, op.Free)
					}
				}
			}
		})
	}
	for range w.sc.Callers {
		simrt.Recv(done)
	}
}

func (VSwitchWorld) Run(t *testing.T, scAny any, chooser simrt.Chooser, keepLog bool) *kit.Result {
	sc := scAny.(*Scenario)
	return kit.Execute(t, chooser, keepLog, 100_000, func(run *kit.Run) {
		w := &world{run: run, sc: sc, cloud: map[string]*VSw{}, model: map[string]*belief{}}
		w.main()
	})
}
