package worldv

import (
	"testing"

	"verif/sim/kit"
)

func TestWorker(t *testing.T)      { kit.Worker(t, VSwitchWorld{}) }
func TestReplay(t *testing.T)      { kit.ReplayFile(t, VSwitchWorld{}) }
func TestDeterminism(t *testing.T) { kit.Determinism(t, VSwitchWorld{}) }
