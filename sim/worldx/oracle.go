package worldx

import (
	"context"
	"fmt"
	"sort"
	"strings"
	"time"

	"k8s.io/apimachinery/pkg/types"
	"sigs.k8s.io/controller-runtime/pkg/reconcile"

	aliyunClient "github.com/AliyunContainerService/terway/pkg/aliyun/client"
	networkv1beta1 "github.com/AliyunContainerService/terway/pkg/apis/network.alibabacloud.com/v1beta1"

	"verif/sim/simrt"
)

// ---- C08 O1: quotas, checked against the cloud at call time

func (w *World) attachedOrPending() (total, trunk, rdma, secondary int) {
	for _, id := range w.cloud.order {
		e := w.cloud.enis[id]
		if e == nil || e.Type == aliyunClient.ENITypePrimary {
			continue
		}
		inst := e.Instance
		if inst == "" {
			inst = w.pendingInstance[id]
		}
		if inst != instanceID {
			continue
		}
		total++
		switch {
		case e.Type == aliyunClient.ENITypeTrunk:
			trunk++
		case e.Mode == aliyunClient.ENITrafficModeRDMA:
			rdma++
		default:
			secondary++
		}
	}
	return
}

func (w *World) quotaOnCreate(nio *aliyunClient.NetworkInterfaceOptions) {
	w.run.Eval()
	total, trunk, rdma, _ := w.attachedOrPending()
	if total+1 > w.cfg.Adapters-1 {
		w.run.Violate("C08", "quota", "create-over-adapter-limit", "CreateNetworkInterface with %d interfaces already attached or being created; the node allows %d secondary interfaces", total, w.cfg.Adapters-1)
	}
	if nio.Trunk && (!w.cfg.Trunk || trunk+1 > 1) {
		w.run.Violate("C08", "quota", "create-over-flavor-trunk", "CreateNetworkInterface(trunk) with %d trunk interfaces present (flavor allows %v)", trunk, w.cfg.Trunk)
	}
	if nio.ERDMA && (!w.cfg.ERDMA || rdma+1 > 1) {
		w.run.Violate("C08", "quota", "create-over-flavor-rdma", "CreateNetworkInterface(rdma) with %d RDMA interfaces present (flavor allows %v)", rdma, w.cfg.ERDMA)
	}
	if nio.IPCount > w.cfg.IPv4Per || nio.IPv6Count > w.cfg.IPv6Per {
		w.run.Violate("C08", "quota", "create-over-ip-per-adapter", "CreateNetworkInterface asks v4=%d v6=%d; limits %d/%d", nio.IPCount, nio.IPv6Count, w.cfg.IPv4Per, w.cfg.IPv6Per)
	}
	if (!w.cfg.v4() && nio.IPCount > 1) || (!w.cfg.v6() && nio.IPv6Count > 0) {
		w.run.Violate("C08", "quota", "create-disabled-family", "CreateNetworkInterface asks v4=%d v6=%d on stack %s", nio.IPCount, nio.IPv6Count, w.cfg.Stack)
	}
}

func (w *World) quotaOnAttach(inst string) {}

func (w *World) quotaOnAssign(e *cENI, n int, v6 bool) {
	w.run.Eval()
	if e == nil {
		return
	}
	have, lim := len(e.V4), w.cfg.IPv4Per
	if v6 {
		have, lim = len(e.V6), w.cfg.IPv6Per
	}
	if have+n > lim {
		w.run.Violate("C08", "quota", "assign-over-ip-per-adapter", "assign on %s: %d present + %d requested > limit %d (v6=%v)", e.ID, have, n, lim, v6)
	}
	if n <= 0 {
		w.run.Violate("C08", "quota", "assign-nonpositive", "assign on %s with count %d", e.ID, n)
	}
}

// ---- settle phase: C03 liveness, C08 convergence and conservation

func (w *World) reconcileOnce() {
	_, _ = w.ctl.Reconcile(context.Background(), reconcile.Request{NamespacedName: types.NamespacedName{Name: nodeName}})
}

func (w *World) settle() {
	w.faultsOn = false
	if w.sc.SettleS <= 0 {
		return
	}
	w.notify()
	simrt.Sleep(time.Duration(w.sc.SettleS) * time.Second)
	for i := 0; i < 30 && w.cloud.inflight > 0; i++ {
		simrt.Sleep(10 * time.Second)
	}
	node := w.truthNode()
	if node == nil {
		return
	}
	w.run.Eval()
	all := flatten(node)
	// C03 liveness: once the pod is gone and its teardown was processed, the address is free again
	for _, ip := range sortedIPs(all) {
		r := all[ip]
		if r.ip.PodID == "" {
			continue
		}
		p := w.podByID(r.ip.PodID)
		if p == nil || p.exists {
			continue
		}
		if r.ip.PodUID != "" && !w.delProcessed[r.ip.PodUID] {
			// DEL never delivered: the daemon's GC has to notice (5 min period + 30 s grace)
			if time.Since(p.goneAt) < 12*time.Minute {
				continue
			}
		}
		if time.Since(p.goneAt) < 5*time.Minute {
			continue
		}
		w.run.Violate("C03", "reclaim-liveness", "address-never-reclaimed", "%s is still bound to %s (uid %q) %s after the pod vanished (DEL processed: %v), %d s after faults stopped", ip, r.ip.PodID, r.ip.PodUID, time.Since(p.goneAt).Round(time.Second), w.delProcessed[r.ip.PodUID], w.sc.SettleS)
	}
	// C08 O3: record and cloud agree after failures (one forced full sync is allowed)
	w.conservation(node)
	if !w.sc.Strict {
		return
	}
	// C08 O2 (fault-free runs only): fixed point
	w.fixedPoint()
}

func (w *World) conservation(node *networkv1beta1.Node) {
	// every interface the controller created and that is still attached to the instance is in the record
	ids := append([]string{}, w.cloud.order...)
	sort.Strings(ids)
	for _, id := range ids {
		e := w.cloud.enis[id]
		if e == nil || !e.ByCtrl {
			continue
		}
		if _, ok := node.Status.NetworkInterfaces[id]; ok {
			continue
		}
		age := time.Since(e.Created)
		if age < 20*time.Minute {
			continue
		}
		w.run.Violate("C08", "rollback", "interface-created-but-not-recorded", "interface %s (status %s, instance %q) was created by the controller %s ago and is neither recorded nor deleted", id, e.Status, e.Instance, age.Round(time.Second))
	}
}

func (w *World) fixedPoint() {
	node := w.truthNode()
	all := flatten(node)
	// every eligible pod has its address(es)
	for _, p := range w.pods {
		if !p.exists {
			continue
		}
		v4, v6, _ := bindingsOf(node, ns+"/"+p.spec.Name)
		need4, need6 := w.cfg.v4(), w.cfg.v6()
		if (need4 && len(v4) != 1) || (need6 && len(v6) != 1) {
			if w.capacityLeft(node, p) {
				w.run.Violate("C08", "convergence", "eligible-pod-without-address", "pod %s exists but is bound to %v/%v, %d fake seconds into a fault-free settle phase with capacity left", p.spec.Name, v4, v6, w.sc.SettleS)
			}
		}
	}
	// idle reserve within the band
	idle := 0
	for _, ip := range sortedIPs(all) {
		r := all[ip]
		if r.eni.Status != aliyunClient.ENIStatusInUse || r.ip.PodID != "" || r.ip.Status != networkv1beta1.IPStatusValid {
			continue
		}
		if (r.family == "v4") == w.cfg.v4() {
			idle++
		}
	}
	if idle > w.cfg.MaxPool+w.undisposable(node) {
		w.run.Violate("C08", "convergence", "idle-above-max", "idle=%d above max=%d (+%d primary addresses that cannot be released) in a fault-free settle phase", idle, w.cfg.MaxPool, w.undisposable(node))
	}
	// further reconciles change nothing
	m0, s0 := w.cloud.mutations, w.statusWrites
	for i := 0; i < 3; i++ {
		w.reconcileOnce()
		simrt.Sleep(2 * time.Second)
	}
	if w.cloud.mutations != m0 {
		w.run.Violate("C08", "convergence", "no-fixed-point-cloud", "three further reconciles issued cloud mutations: %v", w.cloud.history[len(w.cloud.history)-(w.cloud.mutations-m0):])
	}
	if w.statusWrites != s0 {
		w.run.Violate("C08", "convergence", "no-fixed-point-status", "three further reconciles wrote the node status %d times", w.statusWrites-s0)
	}
	w.run.Probe("fixed-point-checked")
}

func (w *World) undisposable(node *networkv1beta1.Node) int {
	n := 0
	for _, ni := range node.Status.NetworkInterfaces {
		for _, ip := range ni.IPv4 {
			if ip.Primary && ip.PodID == "" {
				n++
			}
		}
	}
	return n
}

// capacityLeft tells whether the node could still serve pod p (a usable interface with room, or a free slot).
func (w *World) capacityLeft(node *networkv1beta1.Node, p *podState) bool {
	total, _, rdma, _ := w.attachedOrPending()
	wantHP := p.spec.RDMA && w.cfg.ERDMA
	for _, ni := range node.Status.NetworkInterfaces {
		hp := ni.NetworkInterfaceTrafficMode == networkv1beta1.NetworkInterfaceTrafficModeHighPerformance
		if ni.Status != aliyunClient.ENIStatusInUse || (w.cfg.ERDMA && hp != wantHP) {
			continue
		}
		if (!w.cfg.v4() || len(ni.IPv4) < w.cfg.IPv4Per) && (!w.cfg.v6() || len(ni.IPv6) < w.cfg.IPv6Per) {
			return true
		}
	}
	if wantHP {
		return rdma < 1 && total < w.cfg.Adapters-1
	}
	return total < w.cfg.Adapters-1
}

var _ = fmt.Sprint
var _ = strings.TrimSpace
