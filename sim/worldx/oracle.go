package worldx

import (
	"context"
	"fmt"
	metav1 "k8s.io/apimachinery/pkg/apis/meta/v1"
	"sort"
	"strings"
	"time"

	"k8s.io/apimachinery/pkg/types"
	"sigs.k8s.io/controller-runtime/pkg/reconcile"

	aliyunClient "github.com/AliyunContainerService/terway/pkg/aliyun/client"
	networkv1beta1 "github.com/AliyunContainerService/terway/pkg/apis/network.alibabacloud.com/v1beta1"

	"verif/sim/simrt"
)

// ---- C08 O1: quotas, checked against the cloud at call time

func (w *World) attachedOrPending(exclude ...string) (total, trunk, rdma, secondary int) {
	for _, id := range w.cloud.order {
		if len(exclude) > 0 && exclude[0] != "" && id == exclude[0] {
			continue // the interface a timed-out attempt of this very request created
		}
		e := w.cloud.enis[id]
		if e == nil || e.Type == aliyunClient.ENITypePrimary {
			continue
		}
		if e.Instance == "" && w.cloud.orphanOfFailedCreate(id) {
			// created by a call that reported failure: nobody is going to attach it, it takes no
			// slot of the instance (its fate is the conservation oracle's business)
			continue
		}
		if e.Tags["cluster"] != "c1" {
			// somebody else's interface (outside the controller's tag filter): it is invisible to
			// the controller, which can only keep what it manages within the limits
			continue
		}
		inst := e.Instance
		if inst == "" && w.pendingSince[id] == w.reconciles {
			// created in this very pass and about to be attached
			inst = w.pendingInstance[id]
		}
		if inst != instanceID {
			continue
		}
		total++
		switch {
		case e.Type == aliyunClient.ENITypeTrunk:
			trunk++
		case e.Mode == aliyunClient.ENITrafficModeRDMA:
			rdma++
		default:
			secondary++
		}
	}
	return
}

// quotaJudged: the quota oracles compare a request with the cloud's state. The property ranges
// over cloud errors and failed status writes, after which the controller notes that a full sync is
// due; a controller restart loses that note (it lives in memory only), which is outside what the
// property quantifies over, so requests made in that window are counted, not judged.
func (w *World) quotaJudged() bool {
	if w.amnesia {
		w.run.Probe("quota-not-judged-after-controller-restart-with-resync-pending")
		return false
	}
	return true
}

func (w *World) quotaOnCreate(nio *aliyunClient.NetworkInterfaceOptions, sameRequest string) {
	w.run.Eval()
	if !w.quotaJudged() {
		return
	}
	total, trunk, rdma, _ := w.attachedOrPending(sameRequest)
	if total+1 > w.cfg.Adapters-1 {
		w.run.Violate("C08", "quota", "create-over-adapter-limit", "CreateNetworkInterface with %d interfaces already attached or being created; the node allows %d secondary interfaces", total, w.cfg.Adapters-1)
	}
	if nio.Trunk && (!w.cfg.Trunk || trunk+1 > 1) {
		w.run.Violate("C08", "quota", "create-over-flavor-trunk", "CreateNetworkInterface(trunk) with %d trunk interfaces present (flavor allows %v)", trunk, w.cfg.Trunk)
	}
	if nio.ERDMA && (!w.cfg.ERDMA || rdma+1 > 1) {
		w.run.Violate("C08", "quota", "create-over-flavor-rdma", "CreateNetworkInterface(rdma) with %d RDMA interfaces present (flavor allows %v)", rdma, w.cfg.ERDMA)
	}
	if nio.IPCount > w.cfg.IPv4Per || nio.IPv6Count > w.cfg.IPv6Per {
		w.run.Violate("C08", "quota", "create-over-ip-per-adapter", "CreateNetworkInterface asks v4=%d v6=%d; limits %d/%d", nio.IPCount, nio.IPv6Count, w.cfg.IPv4Per, w.cfg.IPv6Per)
	}
	if (!w.cfg.v4() && nio.IPCount > 1) || (!w.cfg.v6() && nio.IPv6Count > 0) {
		w.run.Violate("C08", "quota", "create-disabled-family", "CreateNetworkInterface asks v4=%d v6=%d on stack %s", nio.IPCount, nio.IPv6Count, w.cfg.Stack)
	}
}

func (w *World) quotaOnAttach(inst, self string) {
	w.run.Eval()
	if inst != instanceID || !w.quotaJudged() {
		return
	}
	n := 0
	for _, id := range w.cloud.order {
		e := w.cloud.enis[id]
		if e == nil || id == self || e.Type == aliyunClient.ENITypePrimary || e.Instance != instanceID || e.Tags["cluster"] != "c1" {
			continue
		}
		n++
	}
	if n+1 > w.cfg.Adapters-1 {
		w.run.Violate("C08", "quota", "attach-over-adapter-limit", "AttachNetworkInterface(%s) with %d secondary interfaces attached; the node allows %d", self, n, w.cfg.Adapters-1)
	}
}

func (w *World) quotaOnAssign(e *cENI, n, alreadyThere int, v6 bool) {
	w.run.Eval()
	if e == nil || !w.quotaJudged() {
		return
	}
	have, lim := len(e.V4), w.cfg.IPv4Per
	if v6 {
		have, lim = len(e.V6), w.cfg.IPv6Per
	}
	if alreadyThere > 0 {
		w.run.Probe("quota-judged-without-unacknowledged-addresses")
	}
	if have+n-alreadyThere > lim {
		w.run.Violate("C08", "quota", "assign-over-ip-per-adapter", "assign on %s: %d present + %d requested > limit %d (v6=%v)", e.ID, have, n, lim, v6)
	}
	if n <= 0 {
		w.run.Violate("C08", "quota", "assign-nonpositive", "assign on %s with count %d", e.ID, n)
	}
}

// ---- settle phase: C03 liveness, C08 convergence and conservation

func (w *World) reconcileOnce() {
	w.snapshotPassStart()
	_, _ = w.ctl.Reconcile(context.Background(), reconcile.Request{NamespacedName: types.NamespacedName{Name: nodeName}})
}

func (w *World) settle() {
	w.faultsOn = false
	if w.sc.SettleS <= 0 {
		return
	}
	w.notify()
	simrt.Sleep(time.Duration(w.sc.SettleS) * time.Second)
	for i := 0; i < 30 && w.cloud.inflight > 0; i++ {
		simrt.Sleep(10 * time.Second)
	}
	node := w.truthNode()
	if node == nil {
		return
	}
	w.run.Eval()
	all := flatten(node)
	// C03 liveness: once the pod is gone and its teardown was processed, the address is free again
	for _, ip := range sortedIPs(all) {
		r := all[ip]
		if r.ip.PodID == "" {
			continue
		}
		p := w.podByID(r.ip.PodID)
		if p == nil || p.exists {
			continue
		}
		if r.ip.PodUID != "" && (!w.delComplete[r.ip.PodUID] || !w.addOK[r.ip.PodUID] || w.reportLost[r.ip.PodUID]) {
			// DEL never delivered, or delivered to an agent that holds no record of the pod (taken
			// over, database lost), or the agent restarted before it flushed the report: the agent first copies the uid back from the record (every
			// 5 min), then its collection (every 5 min) reports the teardown once that entry is
			// 30 s old; the two writers of the runtime object can undo one another once more.
			if time.Since(p.goneAt) < 21*time.Minute+time.Duration(w.rtSeen[r.ip.PodUID].lost)*5*time.Minute {
				w.run.Probe("reclaim-liveness-not-judged-yet")
				continue
			}
		}
		if time.Since(p.goneAt) < 5*time.Minute {
			continue
		}
		if seen := w.rtSeen[r.ip.PodUID]; seen.tied || (!seen.untiedAt.IsZero() && time.Since(seen.untiedAt) < time.Duration(w.cfg.HeartbeatS)*time.Second+2*time.Minute) {
			// "initial" and "deleted" carry (or carried until a moment ago) the same stamp: which one
			// is final follows map order in the implementation, every pass draws again; no bound
			// can be stated until a later stamp ends the tie and a pass has run (11.2 observations)
			w.run.Probe("reclaim-liveness-not-judged-equal-stamps")
			continue
		}
		w.run.Violate("C03", "reclaim-liveness", "address-never-reclaimed", "%s is still bound to %s (uid %q) %s after the pod vanished (DEL processed: %v), %d s after faults stopped", ip, r.ip.PodID, r.ip.PodUID, time.Since(p.goneAt).Round(time.Second), w.delComplete[r.ip.PodUID], w.sc.SettleS)
	}
	// C08 O3: record and cloud agree again after the next full synchronisation. The 12 h period
	// is made to elapse by moving the due time in the record, as the passage of time would.
	w.forceFullSync()
	if node = w.truthNode(); node == nil {
		return
	}
	w.conservation(node)
	w.agreement(node)
	if !w.sc.Strict {
		return
	}
	// C08 O2 (fault-free runs only): fixed point
	w.fixedPoint()
}

func (w *World) waitIdle() {
	for i := 0; i < 120 && (w.inReconcile || w.cloud.inflight > 0); i++ {
		simrt.Sleep(time.Second)
	}
}

func (w *World) forceFullSync() {
	w.waitIdle()
	before := w.cloud.fullReads
	for try := 0; try < 5 && w.cloud.fullReads == before; try++ {
		node := w.truthNode()
		if node == nil {
			return
		}
		node.Status.NextSyncOpenAPITime = metav1.NewTime(time.Now().Add(-time.Second))
		if err := w.api.DirectWrite(node, func() error { return w.api.Inner.Status().Update(context.Background(), node) }); err != nil {
			continue
		}
		w.notify()
		simrt.Sleep(90 * time.Second)
	}
	if w.cloud.fullReads == before {
		w.run.Probe("forced-full-sync-did-not-happen")
		return
	}
	w.run.Probe("forced-full-sync")
	// interfaces in a transitional state make the sync repeat after 30-60 s
	simrt.Sleep(5 * time.Minute)
	w.waitIdle()
}

// agreement: after a full synchronisation in a fault-free phase, the record and the cloud list the
// same secondary interfaces for the instance and the same addresses on each.
func (w *World) agreement(node *networkv1beta1.Node) {
	if w.inReconcile || w.cloud.inflight > 0 {
		w.run.Probe("agreement-not-judged-busy")
		return
	}
	w.run.Eval()
	ids := append([]string{}, w.cloud.order...)
	sort.Strings(ids)
	seen := map[string]bool{}
	for _, id := range ids {
		e := w.cloud.enis[id]
		if e == nil || e.Instance != instanceID || e.Type == aliyunClient.ENITypePrimary || e.Tags["cluster"] != "c1" {
			continue
		}
		seen[id] = true
		ni := node.Status.NetworkInterfaces[id]
		if ni == nil {
			w.run.Violate("C08", "agreement", "record-misses-interface-after-full-sync", "interface %s (%s) is attached to the instance and absent from the record after a full synchronisation", id, e.Status)
			continue
		}
		for _, fam := range []struct {
			name  string
			cloud map[string]bool
			rec   map[string]*networkv1beta1.IP
		}{{"IPv4", setOf(e.V4), ni.IPv4}, {"IPv6", setOf(e.V6), ni.IPv6}} {
			cl := make([]string, 0, len(fam.cloud))
			for k := range fam.cloud {
				cl = append(cl, k)
			}
			sort.Strings(cl)
			for _, ip := range cl {
				if fam.rec[ip] == nil {
					w.run.Violate("C08", "agreement", "record-misses-address-after-full-sync", "%s address %s is on interface %s in the cloud and absent from the record after a full synchronisation", fam.name, ip, id)
				}
			}
			rk := make([]string, 0, len(fam.rec))
			for k := range fam.rec {
				rk = append(rk, k)
			}
			sort.Strings(rk)
			for _, ip := range rk {
				if !fam.cloud[ip] {
					w.run.Violate("C08", "agreement", "record-keeps-address-cloud-lacks-after-full-sync", "%s address %s (status %s) is recorded on interface %s and the cloud does not have it after a full synchronisation", fam.name, ip, fam.rec[ip].Status, id)
				}
			}
		}
	}
	rids := make([]string, 0, len(node.Status.NetworkInterfaces))
	for id := range node.Status.NetworkInterfaces {
		rids = append(rids, id)
	}
	sort.Strings(rids)
	for _, id := range rids {
		if !seen[id] {
			st := "gone"
			if e := w.cloud.enis[id]; e != nil {
				st = e.Status + " on " + e.Instance
			}
			w.run.Violate("C08", "agreement", "record-keeps-interface-cloud-lacks-after-full-sync", "interface %s is in the record (status %s); in the cloud it is %s", id, node.Status.NetworkInterfaces[id].Status, st)
		}
	}
}

func setOf(l []string) map[string]bool {
	m := map[string]bool{}
	for _, x := range l {
		m[x] = true
	}
	return m
}

func (w *World) conservation(node *networkv1beta1.Node) {
	// every interface the controller created and that is still attached to the instance is in the record
	ids := append([]string{}, w.cloud.order...)
	sort.Strings(ids)
	for _, id := range ids {
		e := w.cloud.enis[id]
		if e == nil || !e.ByCtrl {
			continue
		}
		if _, ok := node.Status.NetworkInterfaces[id]; ok {
			continue
		}
		age := time.Since(e.Created)
		if age < 20*time.Minute {
			continue
		}
		fp := "interface-created-but-not-recorded"
		if w.cloud.orphanOfFailedCreate(id) {
			// the create call itself reported an error after taking effect and was never
			// retried with the same parameters: the controller never learnt the id
			fp += "@create-failed-after-effect"
		} else if w.cloud.deleteFailed[id] && !w.everRecorded[id] {
			// the rollback's delete failed and the write that was to record the interface for
			// deletion failed as well: nothing remembers it
			fp += "@rollback-delete-and-record-write-both-failed"
		}
		w.run.Violate("C08", "rollback", fp, "interface %s (status %s, instance %q) was created by the controller %s ago and is neither recorded nor deleted", id, e.Status, e.Instance, age.Round(time.Second))
	}
}

func (w *World) fixedPoint() {
	// the probe reconciles below are issued from here: the controller's own runner is stopped
	// first, as one key is never reconciled twice at a time
	w.waitIdle()
	w.ctlGen++
	close(w.stopCtl(w.ctlGen - 1))
	node := w.truthNode()
	all := flatten(node)
	// trimming takes one step per collection pass (and a pass needs a reconcile): a pool that has
	// only been shrinking lately is still converging, the property sets no deadline
	if w.cloud.shrinkingOnly(2*time.Duration(max(w.cfg.HeartbeatS, w.cfg.GCPeriodS))*time.Second + time.Minute) {
		w.run.Probe("fixed-point-not-judged-still-shrinking")
		return
	}
	tag := w.knownCycleCause(node)
	// every eligible pod has its address(es)
	for _, p := range w.pods {
		if !p.exists || p.exited {
			continue
		}
		v4, v6, _ := bindingsOf(node, ns+"/"+p.spec.Name)
		need4, need6 := w.cfg.v4(), w.cfg.v6()
		if (need4 && len(v4) != 1) || (need6 && len(v6) != 1) {
			if w.capacityLeft(node, p) {
				ptag := ""
				if w.pinnedPod(node) == p.spec.Name {
					ptag = "@pod-pinned-to-interface-without-idle-address"
				} else if w.idleFamiliesApart(node) {
					ptag = "@idle-families-on-different-interfaces"
				}
				w.run.Violate("C08", "convergence", "eligible-pod-without-address"+ptag, "pod %s exists but is bound to %v/%v, %d fake seconds into a fault-free settle phase with capacity left", p.spec.Name, v4, v6, w.sc.SettleS)
			}
		}
	}
	// idle reserve within the band
	idle := 0
	for _, ip := range sortedIPs(all) {
		r := all[ip]
		if r.eni.Status != aliyunClient.ENIStatusInUse || r.ip.PodID != "" || r.ip.Status != networkv1beta1.IPStatusValid {
			continue
		}
		if (r.family == "v4") == w.cfg.v4() {
			idle++
		}
	}
	if idle > w.cfg.MaxPool+w.undisposable(node) {
		w.run.Violate("C08", "convergence", "idle-above-max"+tag, "idle=%d above max=%d (+%d primary addresses that cannot be released) in a fault-free settle phase", idle, w.cfg.MaxPool, w.undisposable(node))
	}
	// further reconciles change nothing
	m0, s0 := w.cloud.mutations, w.statusWrites
	for i := 0; i < 3; i++ {
		w.reconcileOnce()
		simrt.Sleep(2 * time.Second)
	}
	if w.cloud.mutations != m0 {
		extra := w.cloud.history[len(w.cloud.history)-(w.cloud.mutations-m0):]
		w.run.Violate("C08", "convergence", "no-fixed-point-cloud"+tag, "three further reconciles issued cloud mutations: %v", extra)
	}
	if w.statusWrites != s0 {
		w.run.Violate("C08", "convergence", "no-fixed-point-status"+tag, "three further reconciles wrote the node status %d times", w.statusWrites-s0)
	}
	w.run.Probe("fixed-point-checked")
}

// knownCycleCause names the recorded defect (known_findings.json) whose precondition the record
// meets, so that only a failure to converge with that specific cause is attributed to it.
// pinnedPod: a dual-stack pod that holds one family only (taken over from a single-stack node, or
// the other address was lost) can only be completed on the interface of the address it holds.
// K6: the controller adds addresses wherever its walk over the interfaces puts them, not on that
// interface; if that interface has no idle address of the missing family the pod waits for ever
// while addresses are assigned elsewhere and trimmed again.
func (w *World) pinnedPod(node *networkv1beta1.Node) string {
	if !w.cfg.v4() || !w.cfg.v6() {
		return ""
	}
	names := []string{}
	for _, p := range w.pods {
		if p.exists && !p.exited {
			names = append(names, p.spec.Name)
		}
	}
	sort.Strings(names)
	for _, name := range names {
		podID := ns + "/" + name
		for _, ni := range node.Status.NetworkInterfaces {
			has4, has6, idle4, idle6 := false, false, false, false
			for _, ip := range ni.IPv4 {
				if ip != nil && ip.PodID == podID {
					has4 = true
				}
				if ip != nil && ip.PodID == "" && ip.Status == networkv1beta1.IPStatusValid {
					idle4 = true
				}
			}
			for _, ip := range ni.IPv6 {
				if ip != nil && ip.PodID == podID {
					has6 = true
				}
				if ip != nil && ip.PodID == "" && ip.Status == networkv1beta1.IPStatusValid {
					idle6 = true
				}
			}
			if (has4 && !has6 && !idle6) || (has6 && !has4 && !idle4) {
				return name
			}
		}
	}
	return ""
}

// idleFamiliesApart (K3d): dual stack, the idle IPv4 addresses and the idle IPv6 addresses sit on
// different interfaces. The demand is computed per family over all interfaces in sequence
// ("enough idle IPv4, enough idle IPv6"), but a pod needs both on one interface: nothing is added
// and the pod waits for ever.
func (w *World) idleFamiliesApart(node *networkv1beta1.Node) bool {
	if !w.cfg.v4() || !w.cfg.v6() {
		return false
	}
	only4, only6, both := false, false, false
	for _, ni := range node.Status.NetworkInterfaces {
		if ni.Status != aliyunClient.ENIStatusInUse || ni.NetworkInterfaceTrafficMode == networkv1beta1.NetworkInterfaceTrafficModeHighPerformance {
			continue
		}
		i4, i6 := false, false
		for _, ip := range ni.IPv4 {
			if ip != nil && ip.PodID == "" && ip.Status == networkv1beta1.IPStatusValid {
				i4 = true
			}
		}
		for _, ip := range ni.IPv6 {
			if ip != nil && ip.PodID == "" && ip.Status == networkv1beta1.IPStatusValid {
				i6 = true
			}
		}
		switch {
		case i4 && i6:
			both = true
		case i4:
			only4 = true
		case i6:
			only6 = true
		}
	}
	return only4 && only6 && !both
}

func (w *World) knownCycleCause(node *networkv1beta1.Node) string {
	if w.pinnedPod(node) != "" {
		return "@pod-pinned-to-interface-without-idle-address"
	}
	// K3b: trimming counts the idle addresses of RDMA interfaces, refilling (for ordinary pods)
	// does not; with more idle RDMA addresses than the band is wide there is no pool size at
	// which both are satisfied.
	rdmaIdle := 0
	for _, ni := range node.Status.NetworkInterfaces {
		if ni.Status != aliyunClient.ENIStatusInUse || ni.NetworkInterfaceTrafficMode != networkv1beta1.NetworkInterfaceTrafficModeHighPerformance {
			continue
		}
		fam := ni.IPv4
		if !w.cfg.v4() {
			fam = ni.IPv6
		}
		for _, ip := range fam {
			if ip != nil && ip.PodID == "" && ip.Status == networkv1beta1.IPStatusValid {
				rdmaIdle++
			}
		}
	}
	if w.cfg.MinPool > 0 && rdmaIdle > w.cfg.MaxPool-w.cfg.MinPool {
		return "@idle-rdma-addresses-exceed-band"
	}
	// K3a: the reserve is refilled interface by interface in sequence: an interface holding fewer
	// idle addresses than the demand gets more although the following interfaces hold enough, the
	// surplus is trimmed at the next collection, and so on (which interface comes first among
	// equals changes from pass to pass).
	if w.cfg.MinPool > 0 {
		// precondition: the reserve can sit on one interface while another one has room
		type st struct{ room, idle bool }
		var pool []st
		for _, ni := range node.Status.NetworkInterfaces {
			if ni.Status != aliyunClient.ENIStatusInUse || ni.NetworkInterfaceTrafficMode == networkv1beta1.NetworkInterfaceTrafficModeHighPerformance {
				continue
			}
			var x st
			for _, f := range []struct {
				on  bool
				m   map[string]*networkv1beta1.IP
				per int
			}{{w.cfg.v4(), ni.IPv4, w.cfg.IPv4Per}, {w.cfg.v6(), ni.IPv6, w.cfg.IPv6Per}} {
				if !f.on {
					continue
				}
				staying := 0
				for _, ip := range f.m {
					if ip != nil && ip.PodID == "" && ip.Status == networkv1beta1.IPStatusValid {
						x.idle = true
					}
					if ip != nil && ip.Status != networkv1beta1.IPStatusDeleting {
						staying++
					}
				}
				if staying < f.per { // entries on their way out make room again
					x.room = true
				}
			}
			pool = append(pool, x)
		}
		for a := range pool {
			for b := range pool {
				if a != b && pool[a].room && pool[b].idle {
					return "@reserve-split-over-interfaces"
				}
			}
		}
	}
	// K3c: in dual stack the reserve is refilled per family and per interface in sequence (an
	// interface without an idle IPv6 address gets one although the next interface has one), while
	// trimming counts IPv4 only (primary addresses included) and then removes from both families.
	// With a reserve to keep (min > 0) and interfaces whose idle IPv4 and IPv6 counts differ, the
	// two never agree.
	if w.cfg.v4() && w.cfg.v6() && w.cfg.MinPool > 0 {
		// the unreleasable idle primary addresses alone fill the band: every collection finds
		// idle IPv4 > max and, unable to remove a primary, removes an IPv6 address instead
		primIdle := 0
		for _, ni := range node.Status.NetworkInterfaces {
			if ni.Status != aliyunClient.ENIStatusInUse || ni.NetworkInterfaceTrafficMode == networkv1beta1.NetworkInterfaceTrafficModeHighPerformance {
				continue
			}
			for _, ip := range ni.IPv4 {
				if ip != nil && ip.Primary && ip.PodID == "" && ip.Status == networkv1beta1.IPStatusValid {
					primIdle++
				}
			}
		}
		if primIdle >= w.cfg.MaxPool {
			return "@dual-stack-idle-imbalance"
		}
		for _, ni := range node.Status.NetworkInterfaces {
			if ni.Status != aliyunClient.ENIStatusInUse {
				continue
			}
			i4, i6 := 0, 0
			for _, ip := range ni.IPv4 {
				if ip != nil && ip.PodID == "" && ip.Status == networkv1beta1.IPStatusValid {
					i4++
				}
			}
			for _, ip := range ni.IPv6 {
				if ip != nil && ip.PodID == "" && ip.Status == networkv1beta1.IPStatusValid {
					i6++
				}
			}
			if i4 != i6 {
				return "@dual-stack-idle-imbalance"
			}
		}
	}
	return ""
}

func (w *World) undisposable(node *networkv1beta1.Node) int {
	n := 0
	for _, ni := range node.Status.NetworkInterfaces {
		for _, ip := range ni.IPv4 {
			if ip.Primary && ip.PodID == "" {
				n++
			}
		}
	}
	return n
}

// capacityLeft tells whether the node could still serve pod p (a usable interface with room, or a free slot).
func (w *World) capacityLeft(node *networkv1beta1.Node, p *podState) bool {
	// a pod that reports an address the record no longer has can only be re-adopted onto that
	// address (C02) and therefore cannot be served at all: it is not an eligible pod
	if pod := w.truthPod(p.spec.Name); pod != nil {
		all := flatten(node)
		r4, r6 := reported(pod)
		for _, ip := range []string{r4, r6} {
			if ip == "" {
				continue
			}
			if _, ok := all[ip]; !ok {
				w.run.Probe("pod-reports-address-the-record-lost")
				return false
			}
		}
	}
	total, trunk, rdma, secondary := w.attachedOrPending()
	wantHP := p.spec.RDMA && w.cfg.ERDMA
	for _, ni := range node.Status.NetworkInterfaces {
		hp := ni.NetworkInterfaceTrafficMode == networkv1beta1.NetworkInterfaceTrafficModeHighPerformance
		if ni.Status != aliyunClient.ENIStatusInUse || (w.cfg.ERDMA && hp != wantHP) {
			continue
		}
		if (!w.cfg.v4() || len(ni.IPv4) < w.cfg.IPv4Per) && (!w.cfg.v6() || len(ni.IPv6) < w.cfg.IPv6Per) {
			return true
		}
	}
	// free slots per flavor: one trunk and one RDMA interface at most, the rest ordinary
	slots := w.cfg.Adapters - 1
	rdmaSlots, trunkSlots := 0, 0
	if w.cfg.ERDMA {
		rdmaSlots = 1
	}
	if w.cfg.Trunk {
		trunkSlots = 1
	}
	if total >= slots {
		return false
	}
	if wantHP {
		return rdma < rdmaSlots
	}
	return secondary < slots-rdmaSlots-trunkSlots || trunk < trunkSlots
}

var _ = fmt.Sprint
var _ = strings.TrimSpace
