package worldx

import (
	"context"
	"fmt"
	"sort"
	"strings"
	"time"

	"github.com/aliyun/alibaba-cloud-sdk-go/services/ecs"
	"github.com/aliyun/alibaba-cloud-sdk-go/services/vpc"
	"k8s.io/apimachinery/pkg/util/wait"

	aliyunClient "github.com/AliyunContainerService/terway/pkg/aliyun/client"
	apiErr "github.com/AliyunContainerService/terway/pkg/aliyun/client/errors"
	register "github.com/AliyunContainerService/terway/pkg/controller"

	"verif/sim/kit"
	"verif/sim/simrt"
)

// cENI is the cloud's truth about one interface.
type cENI struct {
	ID, MAC  string
	Type     string // Primary | Secondary | Trunk
	Mode     string // Standard | HighPerformance
	Status   string
	Instance string
	VSwitch  string
	SGs      []string
	Tags     map[string]string
	V4       []string // first is the primary address
	V6       []string
	ReadyAt  time.Time // when a pending attach/detach completes
	Created  time.Time
	ByCtrl   bool
	NeverUp  bool // injected: the attach never completes
}

// Cloud is SimCloud behind register.Interface (control plane front-end).
type Cloud struct {
	register.Interface // unimplemented methods panic (nil embedded interface): a run that reaches one is reported

	w            *World
	enis         map[string]*cENI
	order        []string
	nextENI      int
	nextIP       int
	calls        int
	inflight     int
	fullReads    int
	deleteFailed map[string]bool
	createFailed map[string]bool // interfaces created by a create call that reported failure, not adopted since
	unacked      map[string]bool // addresses assigned by a call that then reported failure, not yet revealed by a full read
	// mutations issued by the controller, for the fixed-point oracle
	mutations      int
	history        []string
	histAt         []time.Time
	timedOut       map[string]string // create parameters -> interface created by a call that then timed out
	timedOutAssign map[string][]aliyunClient.IPSet
}

func newCloud(w *World) *Cloud {
	return &Cloud{w: w, enis: map[string]*cENI{}, timedOut: map[string]string{}, timedOutAssign: map[string][]aliyunClient.IPSet{}, deleteFailed: map[string]bool{}, createFailed: map[string]bool{}, unacked: map[string]bool{}}
}

func (c *Cloud) ip4() string {
	c.nextIP++
	return fmt.Sprintf("10.0.%d.%d", c.nextIP/200, 10+c.nextIP%200)
}

func (c *Cloud) ip6() string {
	c.nextIP++
	return fmt.Sprintf("fd00:db8::%x", 0x100+c.nextIP)
}

func (c *Cloud) newENI(typ, mode, instance, status string, v4, v6 int, byCtrl bool, tags map[string]string) *cENI {
	c.nextENI++
	e := &cENI{ID: fmt.Sprintf("eni-%02d", c.nextENI), MAC: fmt.Sprintf("00:16:3e:00:01:%02x", c.nextENI), Type: typ, Mode: mode,
		Status: status, Instance: instance, VSwitch: "vsw-1", SGs: []string{"sg-1"}, Tags: tags, Created: time.Now(), ByCtrl: byCtrl}
	if v4 < 1 {
		v4 = 1
	}
	for i := 0; i < v4; i++ {
		e.V4 = append(e.V4, c.ip4())
	}
	for i := 0; i < v6; i++ {
		e.V6 = append(e.V6, c.ip6())
	}
	c.enis[e.ID] = e
	c.order = append(c.order, e.ID)
	return e
}

// settle applies pending asynchronous transitions whose time has come.
func (c *Cloud) settle() {
	now := time.Now()
	for _, id := range c.order {
		e := c.enis[id]
		if e == nil || e.ReadyAt.IsZero() || now.Before(e.ReadyAt) {
			continue
		}
		switch e.Status {
		case aliyunClient.ENIStatusAttaching:
			if !e.NeverUp {
				e.Status = aliyunClient.ENIStatusInUse
				e.ReadyAt = time.Time{}
			}
		case aliyunClient.ENIStatusDetaching:
			e.Status = aliyunClient.ENIStatusAvailable
			e.Instance = ""
			e.ReadyAt = time.Time{}
		}
	}
}

func (c *Cloud) toAPI(e *cENI) *aliyunClient.NetworkInterface {
	n := &aliyunClient.NetworkInterface{
		Status: e.Status, MacAddress: e.MAC, NetworkInterfaceID: e.ID, VSwitchID: e.VSwitch, PrivateIPAddress: e.V4[0],
		ZoneID: "zone-a", SecurityGroupIDs: e.SGs, Type: e.Type, InstanceID: e.Instance, NetworkInterfaceTrafficMode: e.Mode,
		CreationTime: e.Created.UTC().Format(time.RFC3339),
	}
	for i, ip := range e.V4 {
		n.PrivateIPSets = append(n.PrivateIPSets, aliyunClient.IPSet{IPAddress: ip, Primary: i == 0})
	}
	for _, ip := range e.V6 {
		n.IPv6Set = append(n.IPv6Set, aliyunClient.IPSet{IPAddress: ip})
	}
	keys := make([]string, 0, len(e.Tags))
	for k := range e.Tags {
		keys = append(keys, k)
	}
	sort.Strings(keys)
	for _, k := range keys {
		n.Tags = append(n.Tags, ecs.Tag{Key: k, Value: e.Tags[k], TagKey: k, TagValue: e.Tags[k]})
	}
	return n
}

// enter is the common prologue of every cloud call: scheduling point, latency, fault lookup.
func (c *Cloud) enter(site, detail string) string {
	simrt.Yield("cloud." + site)
	c.calls++
	c.inflight++
	c.w.run.S.Log("cloud", "%s %s", site, detail)
	fault := c.w.faultAt("cloud." + site)
	lat := time.Duration(c.w.sc.LatencyMs) * time.Millisecond
	if fault == "slow" {
		lat += 20 * time.Second
		c.w.run.Fault("cloud.slow")
		fault = ""
	}
	if lat > 0 {
		simrt.Sleep(lat)
	}
	c.settle()
	return fault
}

func (c *Cloud) leave(site, detail string) {
	c.inflight--
	c.w.run.S.Log("cloud", "%s -> %s", site, detail)
}

func (c *Cloud) mutated(what string) {
	c.mutations++
	c.history = append(c.history, what)
	c.histAt = append(c.histAt, time.Now())
}

// orphanOfFailedCreate: created by a call that reported failure and never handed to a caller since.
func (c *Cloud) orphanOfFailedCreate(id string) bool { return c.createFailed[id] }

// shrinkingOnly tells whether the mutations of the last d are removals only (unassign, detach,
// delete) and there is at least one: the pool is still on its way down to the band.
func (c *Cloud) shrinkingOnly(d time.Duration) bool {
	n := 0
	for i := len(c.history) - 1; i >= 0; i-- {
		if time.Since(c.histAt[i]) > d {
			break
		}
		h := c.history[i]
		if strings.HasPrefix(h, "unassign") || strings.HasPrefix(h, "detach") || strings.HasPrefix(h, "delete") {
			n++
			continue
		}
		return false
	}
	return n > 0
}

// recentCycle tells whether the mutations of the last d consist of nothing but repeated
// assign / unassign calls (the pool being trimmed and refilled over and over).
func (c *Cloud) recentCycle(d time.Duration) bool {
	as, un := 0, 0
	for i := len(c.history) - 1; i >= 0; i-- {
		if time.Since(c.histAt[i]) > d {
			break
		}
		switch {
		case strings.HasPrefix(c.history[i], "unassign"):
			un++
		case strings.HasPrefix(c.history[i], "assign"):
			as++
		default:
			return false
		}
	}
	return as >= 2 && un >= 2
}

func cloudErr(kind string) error {
	switch kind {
	case "quota-eni":
		return kit.CloudErr(apiErr.ErrEniPerInstanceLimitExceeded, "injected")
	case "vsw":
		return kit.CloudErr(apiErr.InvalidVSwitchIDIPNotEnough, "injected")
	case "quota-ip":
		return kit.CloudErr(apiErr.QuotaExceededPrivateIPAddress, "injected")
	case "count4":
		return kit.CloudErr(apiErr.ErrIPv4CountExceeded, "injected")
	case "throttle":
		return kit.CloudErr(apiErr.ErrThrottling, "injected")
	}
	return kit.CloudErr(apiErr.ErrInternalError, "injected "+kind)
}

func (c *Cloud) DescribeNetworkInterfaceV2(ctx context.Context, opts ...aliyunClient.DescribeNetworkInterfaceOption) ([]*aliyunClient.NetworkInterface, error) {
	o := &aliyunClient.DescribeNetworkInterfaceOptions{}
	for _, op := range opts {
		op.ApplyTo(o)
	}
	fault := c.enter("describe", "")
	if fault == "err" || fault == "throttle" {
		c.w.run.Fault("cloud.describe.err")
		c.leave("describe", "err")
		return nil, cloudErr(fault)
	}
	var out []*aliyunClient.NetworkInterface
	for _, id := range c.order {
		e := c.enis[id]
		if e == nil {
			continue
		}
		if o.InstanceID != nil && *o.InstanceID != "" && e.Instance != *o.InstanceID {
			continue
		}
		if o.NetworkInterfaceIDs != nil && len(*o.NetworkInterfaceIDs) > 0 {
			found := false
			for _, x := range *o.NetworkInterfaceIDs {
				if x == id {
					found = true
				}
			}
			if !found {
				continue
			}
		}
		if o.Status != nil && *o.Status != "" && e.Status != *o.Status {
			continue
		}
		if o.InstanceType != nil && *o.InstanceType != "" && e.Type != *o.InstanceType {
			continue
		}
		if o.Tags != nil {
			ok := true
			for k, v := range *o.Tags {
				if e.Tags[k] != v {
					ok = false
				}
			}
			if !ok {
				continue
			}
		}
		out = append(out, c.toAPI(e))
	}
	// the API returns a list with no particular order
	for i := len(out) - 1; i > 0; i-- {
		j := simrt.Choose(i+1, "describe-order")
		out[i], out[j] = out[j], out[i]
	}
	if o.InstanceID != nil && *o.InstanceID != "" && (o.NetworkInterfaceIDs == nil || len(*o.NetworkInterfaceIDs) == 0) {
		// the read a full synchronisation starts with
		c.w.unsynced, c.w.amnesia = false, false
		c.unacked = map[string]bool{}
		c.fullReads++
	}
	c.leave("describe", fmt.Sprintf("%d", len(out)))
	return out, nil
}

func (c *Cloud) CreateNetworkInterfaceV2(ctx context.Context, opts ...aliyunClient.CreateNetworkInterfaceOption) (*aliyunClient.NetworkInterface, error) {
	o := &aliyunClient.CreateNetworkInterfaceOptions{}
	for _, op := range opts {
		op.ApplyCreateNetworkInterface(o)
	}
	nio := o.NetworkInterfaceOptions
	fault := c.enter("create", fmt.Sprintf("instance=%s v4=%d v6=%d trunk=%v erdma=%v", nio.InstanceID, nio.IPCount, nio.IPv6Count, nio.Trunk, nio.ERDMA))
	// The real client gives a retried create with the same parameters the idempotency token of
	// the attempt that failed (C16): the cloud then answers with the interface it already
	// created. That layer sits below this seam, so the stub reproduces its effect.
	pkey := fmt.Sprintf("%s|%s|%d|%d|%v|%v", nio.InstanceID, nio.VSwitchID, nio.IPCount, nio.IPv6Count, nio.Trunk, nio.ERDMA)
	if id, ok := c.timedOut[pkey]; ok && fault != "err" && fault != "throttle" {
		if e := c.enis[id]; e != nil {
			delete(c.timedOut, pkey)
			c.w.run.Probe("create-retry-idempotent")
			if fault == "err-after" {
				c.timedOut[pkey] = id
				c.w.run.Fault("cloud.create.err-after")
				c.leave("create", "err after effect (again) "+id)
				return nil, cloudErr(fault)
			}
			delete(c.createFailed, id)
			c.leave("create", id+" (same token: existing interface)")
			return c.toAPI(e), nil
		}
		delete(c.timedOut, pkey)
	}
	c.w.quotaOnCreate(nio, c.timedOut[pkey])
	switch fault {
	case "err", "quota-eni", "vsw", "quota-ip", "throttle":
		c.w.run.Fault("cloud.create." + fault)
		c.leave("create", "err "+fault)
		return nil, cloudErr(fault)
	}
	typ, mode := aliyunClient.ENITypeSecondary, aliyunClient.ENITrafficModeStandard
	if nio.Trunk {
		typ = aliyunClient.ENITypeTrunk
	}
	if nio.ERDMA {
		mode = aliyunClient.ENITrafficModeRDMA
	}
	e := c.newENI(typ, mode, "", aliyunClient.ENIStatusAvailable, nio.IPCount, nio.IPv6Count, true, nio.Tags)
	e.VSwitch = nio.VSwitchID
	e.SGs = nio.SecurityGroupIDs
	e.Instance = "" // not attached yet
	c.w.pendingInstance[e.ID] = nio.InstanceID
	c.w.pendingSince[e.ID] = c.w.reconciles
	c.mutated("create " + e.ID)
	if fault == "err-after" {
		c.timedOut[pkey] = e.ID
		c.createFailed[e.ID] = true
		c.w.run.Fault("cloud.create.err-after")
		c.leave("create", "err after effect "+e.ID)
		return nil, cloudErr(fault)
	}
	c.leave("create", e.ID)
	return c.toAPI(e), nil
}

func (c *Cloud) AttachNetworkInterface(ctx context.Context, opts ...aliyunClient.AttachNetworkInterfaceOption) error {
	o := &aliyunClient.AttachNetworkInterfaceOptions{}
	for _, op := range opts {
		op.ApplyTo(o)
	}
	id, inst := "", ""
	if o.NetworkInterfaceID != nil {
		id = *o.NetworkInterfaceID
	}
	if o.InstanceID != nil {
		inst = *o.InstanceID
	}
	fault := c.enter("attach", id+" -> "+inst)
	e := c.enis[id]
	c.w.quotaOnAttach(inst, id)
	if fault == "err" || fault == "quota-eni" || fault == "throttle" || e == nil {
		c.w.run.Fault("cloud.attach.err")
		c.leave("attach", "err")
		delete(c.w.pendingInstance, id) // the caller gives this interface up
		if e == nil {
			return kit.CloudErr(apiErr.ErrInvalidENINotFound, "no such eni")
		}
		return cloudErr(fault)
	}
	e.Status = aliyunClient.ENIStatusAttaching
	e.Instance = inst
	e.ReadyAt = time.Now().Add(time.Duration(1+c.w.pick(4, "attach-delay")) * time.Second)
	if fault == "never" {
		e.NeverUp = true
		c.w.run.Fault("cloud.attach.never-completes")
	}
	c.mutated("attach " + id)
	if fault == "err-after" {
		c.w.run.Fault("cloud.attach.err-after")
		c.leave("attach", "err after effect")
		return cloudErr(fault)
	}
	c.leave("attach", "ok")
	return nil
}

func (c *Cloud) DetachNetworkInterface(ctx context.Context, eniID, instanceID, trunkENIID string) error {
	fault := c.enter("detach", eniID)
	c.w.onRemoval("detach", eniID, nil)
	if fault == "err" || fault == "throttle" {
		c.w.run.Fault("cloud.detach.err")
		c.leave("detach", "err")
		return cloudErr(fault)
	}
	e := c.enis[eniID]
	if e != nil && (e.Status == aliyunClient.ENIStatusInUse || e.Status == aliyunClient.ENIStatusAttaching) {
		e.Status = aliyunClient.ENIStatusDetaching
		e.NeverUp = false
		e.ReadyAt = time.Now().Add(time.Duration(1+c.w.pick(4, "detach-delay")) * time.Second)
		c.mutated("detach " + eniID)
	}
	if fault == "err-after" {
		c.w.run.Fault("cloud.detach.err-after")
		c.leave("detach", "err after effect")
		return cloudErr(fault)
	}
	c.leave("detach", "ok")
	return nil
}

func (c *Cloud) DeleteNetworkInterfaceV2(ctx context.Context, eniID string) error {
	fault := c.enter("delete", eniID)
	c.w.onRemoval("delete", eniID, nil)
	if fault == "err" || fault == "throttle" {
		c.w.run.Fault("cloud.delete.err")
		c.leave("delete", "err")
		c.deleteFailed[eniID] = true
		return cloudErr(fault)
	}
	e := c.enis[eniID]
	if e != nil {
		if e.Status != aliyunClient.ENIStatusAvailable {
			c.deleteFailed[eniID] = true
			c.leave("delete", "err invalid state "+e.Status)
			return kit.CloudErr(apiErr.ErrInvalidENIState, "eni is "+e.Status)
		}
		delete(c.enis, eniID)
		c.mutated("delete " + eniID)
	}
	if fault == "err-after" {
		c.w.run.Fault("cloud.delete.err-after")
		c.leave("delete", "err after effect")
		return cloudErr(fault)
	}
	c.leave("delete", "ok")
	return nil
}

func (c *Cloud) WaitForNetworkInterfaceV2(ctx context.Context, eniID string, status string, backoff wait.Backoff, ignoreNotExist bool) (*aliyunClient.NetworkInterface, error) {
	// same contract as the real client: poll Describe with the given backoff
	var info *aliyunClient.NetworkInterface
	steps := backoff.Steps
	d := backoff.Duration
	for i := 0; i < steps; i++ {
		fault := c.enter("wait", eniID+" for "+status)
		e := c.enis[eniID]
		c.leave("wait", func() string {
			if e == nil {
				return "absent"
			}
			return e.Status
		}())
		if fault != "err" {
			if e == nil && ignoreNotExist {
				return nil, fmt.Errorf("error wait for eni %v to status %s, %w", eniID, status, apiErr.ErrNotFound)
			}
			if e != nil && (status == "" || e.Status == status) {
				info = c.toAPI(e)
				return info, nil
			}
		} else {
			c.w.run.Fault("cloud.wait.err")
		}
		if i < steps-1 {
			simrt.Sleep(d)
			d = time.Duration(float64(d) * backoff.Factor)
		}
	}
	return nil, fmt.Errorf("error wait for eni %v to status %s, %w", eniID, status, wait.ErrWaitTimeout)
}

func (c *Cloud) assign(site string, opts *aliyunClient.NetworkInterfaceOptions, v6 bool) ([]aliyunClient.IPSet, error) {
	n := opts.IPCount
	if v6 {
		n = opts.IPv6Count
	}
	fault := c.enter(site, fmt.Sprintf("%s n=%d", opts.NetworkInterfaceID, n))
	e := c.enis[opts.NetworkInterfaceID]
	// same token => same answer (see CreateNetworkInterfaceV2)
	akey := fmt.Sprintf("%s|%s|%d", site, opts.NetworkInterfaceID, n)
	if prev, ok := c.timedOutAssign[akey]; ok && e != nil && fault != "err" && fault != "throttle" && fault != "vsw" && fault != "quota-ip" && fault != "count4" {
		still := true
		for _, ip := range prev {
			if !c.hasIP(ip.IPAddress) {
				still = false
			}
		}
		if still {
			if fault == "err-after" {
				c.w.run.Fault("cloud." + site + ".err-after")
				c.leave(site, "err after effect (again)")
				return nil, cloudErr(fault)
			}
			delete(c.timedOutAssign, akey)
			c.w.run.Probe("assign-retry-idempotent")
			c.leave(site, fmt.Sprintf("%v (same token: existing addresses)", prev))
			return prev, nil
		}
		delete(c.timedOutAssign, akey)
	}
	// addresses left behind by a call that reported failure are unknown to the caller until it
	// reads the interface list again; its requests are judged against what it can know
	pending := 0
	if e != nil {
		l := e.V4
		if v6 {
			l = e.V6
		}
		for _, ip := range l {
			if c.unacked[ip] {
				pending++
			}
		}
	}
	c.w.quotaOnAssign(e, n, pending, v6)
	switch fault {
	case "err", "vsw", "quota-ip", "count4", "throttle":
		c.w.run.Fault("cloud." + site + "." + fault)
		c.leave(site, "err "+fault)
		return nil, cloudErr(fault)
	}
	if e == nil {
		c.leave(site, "err not found")
		return nil, kit.CloudErr(apiErr.ErrInvalidENINotFound, "no such eni")
	}
	var out []aliyunClient.IPSet
	for i := 0; i < n; i++ {
		if v6 {
			ip := c.ip6()
			e.V6 = append(e.V6, ip)
			out = append(out, aliyunClient.IPSet{IPAddress: ip})
		} else {
			ip := c.ip4()
			e.V4 = append(e.V4, ip)
			out = append(out, aliyunClient.IPSet{IPAddress: ip})
		}
	}
	c.mutated(site + " " + e.ID)
	if fault == "err-after" {
		// timeout after effect: the addresses exist, nothing is reported
		c.timedOutAssign[akey] = out
		for _, ip := range out {
			c.unacked[ip.IPAddress] = true
		}
		c.w.run.Fault("cloud." + site + ".err-after")
		c.leave(site, fmt.Sprintf("err after effect %v", out))
		return nil, cloudErr(fault)
	}
	c.leave(site, fmt.Sprintf("%v", out))
	return out, nil
}

func (c *Cloud) AssignPrivateIPAddressV2(ctx context.Context, opts ...aliyunClient.AssignPrivateIPAddressOption) ([]aliyunClient.IPSet, error) {
	o := &aliyunClient.AssignPrivateIPAddressOptions{}
	for _, op := range opts {
		op.ApplyAssignPrivateIPAddress(o)
	}
	return c.assign("assign4", o.NetworkInterfaceOptions, false)
}

func (c *Cloud) AssignIpv6AddressesV2(ctx context.Context, opts ...aliyunClient.AssignIPv6AddressesOption) ([]aliyunClient.IPSet, error) {
	o := &aliyunClient.AssignIPv6AddressesOptions{}
	for _, op := range opts {
		op.ApplyAssignIPv6Addresses(o)
	}
	return c.assign("assign6", o.NetworkInterfaceOptions, true)
}

func (c *Cloud) unassign(site, eniID string, ips []aliyunClient.IPSet, v6 bool) error {
	var list []string
	for _, ip := range ips {
		list = append(list, ip.IPAddress)
	}
	fault := c.enter(site, eniID+" "+strings.Join(list, ","))
	c.w.onRemoval(site, eniID, list)
	if fault == "err" || fault == "throttle" {
		c.w.run.Fault("cloud." + site + ".err")
		c.leave(site, "err")
		return cloudErr(fault)
	}
	if e := c.enis[eniID]; e != nil {
		rm := func(src []string) []string {
			var out []string
			for _, x := range src {
				keep := true
				for _, y := range list {
					if x == y {
						keep = false
					}
				}
				if keep {
					out = append(out, x)
				}
			}
			return out
		}
		if v6 {
			e.V6 = rm(e.V6)
		} else {
			e.V4 = rm(e.V4)
		}
		c.mutated(site + " " + eniID)
	}
	if fault == "err-after" {
		c.w.run.Fault("cloud." + site + ".err-after")
		c.leave(site, "err after effect")
		return cloudErr(fault)
	}
	c.leave(site, "ok")
	return nil
}

func (c *Cloud) UnAssignPrivateIPAddressesV2(ctx context.Context, eniID string, ips []aliyunClient.IPSet) error {
	return c.unassign("unassign4", eniID, ips, false)
}

func (c *Cloud) UnAssignIpv6AddressesV2(ctx context.Context, eniID string, ips []aliyunClient.IPSet) error {
	return c.unassign("unassign6", eniID, ips, true)
}

func (c *Cloud) DescribeVSwitchByID(ctx context.Context, vSwitchID string) (*vpc.VSwitch, error) {
	fault := c.enter("vsw", vSwitchID)
	if fault == "err" {
		c.w.run.Fault("cloud.vsw.err")
		c.leave("vsw", "err")
		return nil, cloudErr(fault)
	}
	c.leave("vsw", "ok")
	return &vpc.VSwitch{VSwitchId: vSwitchID, ZoneId: "zone-a", AvailableIpAddressCount: 1000, CidrBlock: "10.0.0.0/16", Ipv6CidrBlock: "fd00:db8::/64"}, nil
}
