package worldx

import (
	"context"
	"errors"
	"fmt"
	"net/netip"
	"sort"
	"strings"
	"time"

	corev1 "k8s.io/api/core/v1"
	metav1 "k8s.io/apimachinery/pkg/apis/meta/v1"
	"k8s.io/apimachinery/pkg/runtime"
	"sigs.k8s.io/controller-runtime/pkg/client"

	aliyunClient "github.com/AliyunContainerService/terway/pkg/aliyun/client"
	networkv1beta1 "github.com/AliyunContainerService/terway/pkg/apis/network.alibabacloud.com/v1beta1"
	"github.com/AliyunContainerService/terway/pkg/utils"
	"github.com/AliyunContainerService/terway/rpc"
	"github.com/AliyunContainerService/terway/types"

	"verif/sim/kit"
	"verif/sim/simrt"
)

func (w *World) main() {
	sc := w.sc
	w.cloud = newCloud(w)
	for _, f := range sc.Faults {
		w.faultPlan[fmt.Sprintf("%s#%d", f.Site, f.Nth)] = f.Kind
	}
	knode := &corev1.Node{ObjectMeta: metav1.ObjectMeta{Name: nodeName, UID: "node-uid"}}
	crNode := &networkv1beta1.Node{ObjectMeta: metav1.ObjectMeta{Name: nodeName}, Spec: w.nodeSpec()}
	w.api = kit.NewSimAPI(w.run, types.Scheme, []client.Object{&networkv1beta1.Node{}, &networkv1beta1.NodeRuntime{}, &corev1.Node{}, &corev1.Pod{}}, knode)
	w.api.Decide = func(op string, obj runtime.Object) kit.APIFault {
		f := w.faultAt("api." + op + "." + kit.KindOf(obj))
		if g := w.faultAt("api." + op); f == "" {
			f = g
		}
		switch f {
		case "err":
			return kit.APIErrBefore
		case "err-after":
			return kit.APIErrAfter
		case "conflict":
			return kit.APIConflict
		}
		return kit.APIOk
	}
	w.api.OnWrite = w.onAPIWrite
	if w.cfg.CacheLagMs > 0 {
		w.api.EnableCache(func(kind string) time.Duration {
			return time.Duration(w.cfg.CacheLagMs) * time.Millisecond * time.Duration([]int{0, 1, 10}[w.pick(3, "cache-lag")]) / 10
		}, func(kind string, key client.ObjectKey, obj client.Object) {
			// the controller's watches: its Node objects and the pods mapped to their node
			if kind == "Pod" || kind == "Node" {
				w.notify()
			}
		})
	}

	// the cloud before the run: the instance's primary interface and what is already attached
	prim := w.cloud.newENI(aliyunClient.ENITypePrimary, aliyunClient.ENITrafficModeStandard, instanceID, aliyunClient.ENIStatusInUse, 1, 0, false, nil)
	_ = prim
	tags := map[string]string{"cluster": "c1", types.NetworkInterfaceTagCreatorKey: types.NetworkInterfaceTagCreatorValue}
	var pre []*cENI
	for _, pe := range w.cfg.PreENIs {
		mode := aliyunClient.ENITrafficModeStandard
		if pe.RDMA {
			mode = aliyunClient.ENITrafficModeRDMA
		}
		t := tags
		if pe.Foreign {
			t = map[string]string{"owner": "somebody-else"}
		}
		v4, v6 := 1, 0
		if w.cfg.v4() {
			v4 = max(pe.V4, 1)
		}
		if w.cfg.v6() {
			v6 = pe.V6
		}
		pre = append(pre, w.cloud.newENI(pe.Type, mode, instanceID, aliyunClient.ENIStatusInUse, v4, v6, false, t))
	}
	// pods
	for _, ps := range w.cfg.Pods {
		w.pods = append(w.pods, &podState{spec: ps, delUIDs: map[string]bool{}})
	}
	// initial IPAM record (take-over variants)
	if w.cfg.Populated != "" {
		crNode.Status.NetworkInterfaces = map[string]*networkv1beta1.NetworkInterface{}
		for _, e := range pre {
			if e.Tags["cluster"] != "c1" {
				continue
			}
			ni := &networkv1beta1.NetworkInterface{ID: e.ID, Status: e.Status, MacAddress: e.MAC, VSwitchID: e.VSwitch, SecurityGroupIDs: e.SGs,
				PrimaryIPAddress: e.V4[0], NetworkInterfaceTrafficMode: networkv1beta1.NetworkInterfaceTrafficMode(e.Mode), NetworkInterfaceType: networkv1beta1.ENIType(e.Type),
				IPv4: map[string]*networkv1beta1.IP{}, IPv6: map[string]*networkv1beta1.IP{}, IPv4CIDR: "10.0.0.0/16", IPv6CIDR: "fd00:db8::/64"}
			for i, ip := range e.V4 {
				ni.IPv4[ip] = &networkv1beta1.IP{IP: ip, Primary: i == 0, Status: networkv1beta1.IPStatusValid}
			}
			for _, ip := range e.V6 {
				ni.IPv6[ip] = &networkv1beta1.IP{IP: ip, Status: networkv1beta1.IPStatusValid}
			}
			crNode.Status.NetworkInterfaces[e.ID] = ni
		}
		crNode.Status.NextSyncOpenAPITime = metav1.NewTime(time.Now().Add(12 * time.Hour))
	}
	// existing pods report an address of a pre-attached interface (taken over from a previous version)
	k := 0
	for _, p := range w.pods {
		if !p.spec.Existing {
			continue
		}
		var e *cENI
		for _, cand := range pre {
			if cand.Tags["cluster"] == "c1" && (cand.Mode == aliyunClient.ENITrafficModeRDMA) == (p.spec.RDMA && w.cfg.ERDMA) && cand.Type != aliyunClient.ENITypeTrunk {
				e = cand
			}
		}
		if e == nil {
			p.spec.Existing = false
			continue
		}
		v4, v6 := "", ""
		if w.cfg.v4() && len(e.V4) > 1+k {
			v4 = e.V4[1+k]
		}
		if w.cfg.v6() && len(e.V6) > k {
			v6 = e.V6[k]
		}
		if (w.cfg.v4() && v4 == "") || (w.cfg.v6() && v6 == "") {
			p.spec.Existing = false
			continue
		}
		k++
		switch p.spec.Partial {
		case "v4":
			v6 = ""
		case "v6":
			v4 = ""
		}
		w.createPod(p)
		w.setPodStatus(p, corev1.PodRunning, v4, v6)
		p.sbLive = true
		if ni := crNode.Status.NetworkInterfaces[e.ID]; ni != nil && (w.cfg.Populated == "bound" || w.cfg.Populated == "bound-no-uid") {
			uid := p.uid
			if w.cfg.Populated == "bound-no-uid" {
				uid = ""
			}
			if v4 != "" {
				ni.IPv4[v4].PodID, ni.IPv4[v4].PodUID = ns+"/"+p.spec.Name, uid
				w.firstOwner[v4] = p.uid
			}
			if v6 != "" {
				ni.IPv6[v6].PodID, ni.IPv6[v6].PodUID = ns+"/"+p.spec.Name, uid
				w.firstOwner[v6] = p.uid
			}
		}
	}
	st := crNode.Status.DeepCopy()
	if err := w.api.Inner.Create(context.Background(), crNode); err != nil {
		panic(err)
	}
	crNode.Status = *st
	if err := w.api.Inner.Status().Update(context.Background(), crNode); err != nil {
		panic(err)
	}
	w.prevNode = crNode.DeepCopy()

	w.faultsOn = false
	if err := w.startDaemon(); err != nil {
		w.run.Res.Infra = "daemon start: " + err.Error()
		return
	}
	w.startController()
	w.faultsOn = !sc.Strict
	w.notify()

	for _, op := range sc.Ops {
		if op.DelayMs > 0 {
			simrt.Sleep(time.Duration(op.DelayMs) * time.Millisecond)
		}
		w.runOp(op)
	}
	w.waitOps()
	w.settle()
	w.cancel()
	w.ctlGen++
	close(w.stopCtl(w.ctlGen - 1))
	simrt.Sleep(2 * time.Second)
}

func (w *World) waitOps() {
	for len(w.pending) > 0 {
		d := w.pending[0]
		w.pending = w.pending[1:]
		simrt.Recv(d)
	}
}

func (w *World) spawn(name string, async bool, fn func()) {
	done := make(chan struct{})
	w.run.S.GoNamed(name, w.gen, func() {
		defer close(done)
		fn()
	})
	if async {
		w.pending = append(w.pending, done)
	} else {
		simrt.Recv(done)
	}
}

func cid(p *podState) string { return fmt.Sprintf("%s-sb%d", p.spec.Name, p.sb) }

func isProcessing(err error) bool {
	var te *types.Error
	return errors.As(err, &te) && te.Code == types.ErrPodIsProcessing
}

func (w *World) runOp(op Op) {
	var p *podState
	if op.Pod >= 0 && op.Pod < len(w.pods) {
		p = w.pods[op.Pod]
	}
	switch op.Kind {
	case "up":
		if p == nil {
			return
		}
		if !p.exists {
			w.createPod(p)
		}
		if p.sbLive || p.exited {
			return
		}
		p.sb++
		sandbox := cid(p)
		p.sbs = append(p.sbs, sandbox)
		delay, forUID := time.Duration(op.AddDelayMs)*time.Millisecond, p.uid
		w.spawn("add:"+p.spec.Name, op.Async, func() {
			if delay > 0 {
				simrt.Sleep(delay)
				if !p.exists || p.uid != forUID || p.downUID == forUID {
					return // the pod went away (or its teardown began) before its sandbox was set up
				}
			}
			w.cniAdd(p, sandbox)
		})
	case "down":
		if p == nil || !p.exists {
			return
		}
		w.spawn("down:"+p.spec.Name, op.Async, func() { w.podDown(p, op.Order) })
	case "sleep":
		simrt.Sleep(time.Duration(op.SleepS) * time.Second)
	case "drift-ip":
		w.driftIP(op.N)
	case "drift-eni":
		w.driftENI(op.N)
	case "restart-daemon":
		w.waitOps()
		w.run.Fault("process.daemon-restart")
		w.run.S.Log("ops", "daemon restart (in-memory state lost)")
		// teardown reports not yet flushed to the runtime object (every 3 s) die with the process
		for uid := range w.delComplete {
			if w.rtSeen[uid].del.IsZero() {
				w.reportLost[uid] = true
			}
		}
		w.cancel()
		w.run.S.Kill(w.gen)
		fo := w.faultsOn
		w.faultsOn = false
		if err := w.startDaemon(); err != nil {
			w.run.Res.Infra = "daemon restart: " + err.Error()
		}
		w.faultsOn = fo
	case "restart-ctrl":
		w.run.Fault("process.controller-restart")
		w.run.S.Log("ops", "controller restart (node cache and vSwitch cache lost)")
		w.restartCtl = true
		w.notify()
	case "barrier":
		w.waitOps()
	}
}

func (w *World) cniAdd(p *podState, sandbox string) {
	ctx, cancel := context.WithTimeout(w.ctx, 120*time.Second)
	defer cancel()
	uid := p.uid
	req := &rpc.AllocIPRequest{K8SPodName: p.spec.Name, K8SPodNamespace: ns, K8SPodInfraContainerId: sandbox, Netns: "/proc/1/ns/net", IfName: "eth0"}
	w.run.S.Log("cni", "ADD invoke %s cid=%s", p.spec.Name, req.K8SPodInfraContainerId)
	addBegin := time.Now()
	w.addInFlight[uid]++
	reply, err := w.svc.AllocIP(ctx, req)
	w.addInFlight[uid]--
	if err != nil || reply == nil || !reply.Success {
		// a failed ADD is rolled back by the agent itself, which is the teardown of a sandbox that
		// never came up (the runtime follows with a DEL for it in any case)
		w.addFailed[uid] = true
	} else if w.suspectReport[uid] && !w.delProcessed[uid] && !w.addFailed[uid] && w.cniInFlight[uid] == 0 && p.exists && p.uid == uid {
		// a teardown report seen while this ADD was in flight was given the benefit of the doubt
		// (the ADD might have been failing); it succeeded, so nothing justified the report
		w.run.Violate("C03", "report-safety", "teardown-reported-for-live-pod", "the node agent reported teardown for %s (uid %s) while its only CNI request was an ADD that then succeeded; no DEL for it was processed and the pod exists", ns+"/"+p.spec.Name, uid)
	}
	v4, v6 := "", ""
	if reply != nil {
		for _, nc := range reply.NetConfs {
			if nc.BasicInfo != nil && nc.BasicInfo.PodIP != nil {
				v4, v6 = nc.BasicInfo.PodIP.IPv4, nc.BasicInfo.PodIP.IPv6
			}
		}
	}
	w.run.S.Log("cni", "ADD return %s -> %s %s err=%v", p.spec.Name, v4, v6, err)
	if err != nil || reply == nil || !reply.Success {
		w.run.Probe("add-failed")
		return
	}
	w.run.Probe("add-ok")
	w.addOK[uid] = true
	w.run.Eval()
	// in CRD mode the agent answers with the families the record binds to this pod instance (one
	// is enough for it): each family present must be one of the stack and self-consistent
	kit.CheckNetConf(w.run, p.spec.Name, reply, w.cfg.v4() && v4 != "", w.cfg.v6() && v6 != "")
	if v4 == "" && v6 == "" {
		w.run.Violate("C12", "netconf", "netconf-no-address", "reply for %s carries no address", p.spec.Name)
	}
	// C02: what the daemon hands to the pod is what the record binds to it
	if node := w.truthNode(); node != nil && p.exists && p.uid == uid {
		b4, b6, _ := bindingsOf(node, ns+"/"+p.spec.Name)
		if ((v4 != "" && !contains(b4, v4)) || (v6 != "" && !contains(b6, v6))) && !w.boundRecently(ns+"/"+p.spec.Name, v4, v6, addBegin) {
			w.run.Violate("C02", "daemon-read", "daemon-returned-unbound-address", "AllocIP for %s returned %s/%s but the record binds %v/%v to it", p.spec.Name, v4, v6, b4, b6)
		}
	}
	if !p.exists || p.uid != uid {
		return
	}
	p.sbLive = true
	w.setPodStatus(p, corev1.PodRunning, v4, v6)
}

// cniDel is the CNI DEL of the plugin: GetIPInfo, teardown, ReleaseIP.
func (w *World) cniDel(p *podState, uid string, sandboxes []string) {
	all := true
	for _, sb := range sandboxes {
		if err := w.cniDelOne(p, uid, sb); err != nil {
			all = false
		}
	}
	if all {
		w.delComplete[uid] = true
	}
}

func (w *World) cniDelOne(p *podState, uid, sandbox string) error {
	_, _ = w.svc.GetIPInfo(w.ctx, &rpc.GetInfoRequest{K8SPodName: p.spec.Name, K8SPodNamespace: ns, K8SPodInfraContainerId: sandbox})
	w.run.S.Log("cni", "DEL invoke %s uid=%s", p.spec.Name, uid)
	w.cniInFlight[uid]++
	_, err := w.svc.ReleaseIP(w.ctx, &rpc.ReleaseIPRequest{K8SPodName: p.spec.Name, K8SPodNamespace: ns, K8SPodInfraContainerId: sandbox})
	w.cniInFlight[uid]--
	w.run.S.Log("cni", "DEL return %s err=%v", p.spec.Name, err)
	if !isProcessing(err) {
		// the daemon may have recorded the teardown from the moment the request passed its gate
		w.delProcessed[uid] = true
	}
	if err == nil {
		w.run.Probe("del-ok")
		p.delDone = time.Now()
	}
	return err
}

func (w *World) podDown(p *podState, order string) {
	// the runtime tears down every sandbox it created for the pod; each DEL names its sandbox,
	// whatever happens to the pod's name meanwhile
	p.downUID = p.uid
	uid, sandbox := p.uid, append([]string{}, p.sbs...)
	if len(sandbox) == 0 {
		sandbox = []string{cid(p)}
	}
	p.sbLive = false
	// kubelet stops the containers: the pod object shows it (an update event)
	if !p.exited { // a pod whose containers have exited stays Succeeded
		w.setPodStatus(p, corev1.PodRunning, p.v4, p.v6)
	}
	switch order {
	case "obj-del":
		w.deletePod(p)
		simrt.Sleep(time.Duration(w.pick(5, "down-gap")) * time.Second)
		w.cniDel(p, uid, sandbox)
	case "obj-only":
		w.run.Probe("del-never-delivered")
		w.deletePod(p)
	case "del-only":
		w.cniDel(p, uid, sandbox)
		w.setPodStatus(p, corev1.PodSucceeded, "", "")
		p.exited = true
		w.notify()
	default:
		w.cniDel(p, uid, sandbox)
		simrt.Sleep(time.Duration(w.pick(5, "down-gap")) * time.Second)
		w.deletePod(p)
	}
	w.notify()
}

func (w *World) driftIP(n int) {
	if !w.faultsOn {
		return
	}
	var cands [][2]string
	for _, id := range w.cloud.order {
		e := w.cloud.enis[id]
		if e == nil || e.Type == aliyunClient.ENITypePrimary {
			continue
		}
		for _, ip := range e.V4[1:] {
			cands = append(cands, [2]string{id, ip})
		}
		for _, ip := range e.V6 {
			cands = append(cands, [2]string{id, ip})
		}
	}
	if len(cands) == 0 {
		return
	}
	c := cands[n%len(cands)]
	e := w.cloud.enis[c[0]]
	rm := func(src []string) []string {
		var out []string
		for _, x := range src {
			if x != c[1] {
				out = append(out, x)
			}
		}
		return out
	}
	e.V4, e.V6 = rm(e.V4), rm(e.V6)
	w.run.Fault("cloud.drift.ip-removed")
	w.run.S.Log("drift", "address %s removed remotely from %s", c[1], c[0])
}

func (w *World) driftENI(n int) {
	if !w.faultsOn {
		return
	}
	var cands []string
	for _, id := range w.cloud.order {
		if e := w.cloud.enis[id]; e != nil && e.Type == aliyunClient.ENITypeSecondary && e.Status == aliyunClient.ENIStatusInUse {
			cands = append(cands, id)
		}
	}
	if len(cands) == 0 {
		return
	}
	id := cands[n%len(cands)]
	delete(w.cloud.enis, id)
	w.run.Fault("cloud.drift.eni-removed")
	w.run.S.Log("drift", "interface %s detached and deleted remotely", id)
}

// ---------------------------------------------------------------------------------------
// truth helpers

func (w *World) truthNode() *networkv1beta1.Node {
	n := &networkv1beta1.Node{}
	if err := w.api.Inner.Get(context.Background(), client.ObjectKey{Name: nodeName}, n); err != nil {
		return nil
	}
	return n
}

func (w *World) truthRuntime() *networkv1beta1.NodeRuntime {
	n := &networkv1beta1.NodeRuntime{}
	if err := w.api.Inner.Get(context.Background(), client.ObjectKey{Name: nodeName}, n); err != nil {
		return nil
	}
	return n
}

func (w *World) truthPod(name string) *corev1.Pod {
	p := &corev1.Pod{}
	if err := w.api.Inner.Get(context.Background(), client.ObjectKey{Namespace: ns, Name: name}, p); err != nil {
		return nil
	}
	return p
}

func contains(xs []string, x string) bool {
	for _, y := range xs {
		if x == y {
			return true
		}
	}
	return false
}

// bindingsOf lists the addresses bound to a pod and the interfaces they are on.
func bindingsOf(node *networkv1beta1.Node, podID string) (v4, v6, enis []string) {
	ids := make([]string, 0, len(node.Status.NetworkInterfaces))
	for id := range node.Status.NetworkInterfaces {
		ids = append(ids, id)
	}
	sort.Strings(ids)
	for _, id := range ids {
		ni := node.Status.NetworkInterfaces[id]
		for ip, v := range ni.IPv4 {
			if v.PodID == podID {
				v4 = append(v4, ip)
				enis = append(enis, id)
			}
		}
		for ip, v := range ni.IPv6 {
			if v.PodID == podID {
				v6 = append(v6, ip)
				enis = append(enis, id)
			}
		}
	}
	sort.Strings(v4)
	sort.Strings(v6)
	return
}

type ipRec struct {
	eni    *networkv1beta1.NetworkInterface
	ip     *networkv1beta1.IP
	family string
}

func flatten(node *networkv1beta1.Node) map[string]ipRec {
	out := map[string]ipRec{}
	if node == nil {
		return out
	}
	for _, ni := range node.Status.NetworkInterfaces {
		for k, v := range ni.IPv4 {
			if v != nil {
				out[k] = ipRec{ni, v, "v4"}
			}
		}
		for k, v := range ni.IPv6 {
			if v != nil {
				out[k] = ipRec{ni, v, "v6"}
			}
		}
	}
	return out
}

// compactStatus renders the record in one line for the event log.
func compactStatus(node *networkv1beta1.Node) string {
	ids := make([]string, 0, len(node.Status.NetworkInterfaces))
	for id := range node.Status.NetworkInterfaces {
		ids = append(ids, id)
	}
	sort.Strings(ids)
	var b strings.Builder
	for _, id := range ids {
		ni := node.Status.NetworkInterfaces[id]
		fmt.Fprintf(&b, "%s[%s/%s", id, ni.NetworkInterfaceType, ni.Status)
		for _, fam := range []map[string]*networkv1beta1.IP{ni.IPv4, ni.IPv6} {
			ks := make([]string, 0, len(fam))
			for k := range fam {
				ks = append(ks, k)
			}
			sort.Strings(ks)
			for _, k := range ks {
				v := fam[k]
				if v == nil {
					continue
				}
				fmt.Fprintf(&b, " %s:%s", k, v.Status)
				if v.Primary {
					b.WriteString(":P")
				}
				if v.PodID != "" {
					fmt.Fprintf(&b, ":%s", v.PodID)
				}
			}
		}
		b.WriteString("] ")
	}
	return b.String()
}

func sortedIPs(m map[string]ipRec) []string {
	ks := make([]string, 0, len(m))
	for k := range m {
		ks = append(ks, k)
	}
	sort.Strings(ks)
	return ks
}

// teardownConfirmed tells whether, in the API truth, pod uid is gone and its CNI DEL reported.
func (w *World) teardownConfirmed(podID, uid string) (bool, string) {
	name := strings.TrimPrefix(podID, ns+"/")
	if pod := w.truthPod(name); pod != nil && !utils.PodSandboxExited(pod) && (uid == "" || string(pod.UID) == uid) && pod.Spec.NodeName == nodeName {
		// a binding without uid (taken over from a previous version) names the pod only: it
		// belongs to the pod that has been there all along, not to a namesake created while this
		// pass was under way (the pass listed the pods when it began)
		if uid != "" || w.passStartUID[name] == string(pod.UID) {
			return false, "the pod still exists"
		}
	}
	if uid == "" {
		return true, ""
	}
	// What counts is what the agent has reported so far, not what the runtime object holds right
	// now: its two writers (the 3 s flush / 5 min sync-back and the collection) each write back
	// the whole status they read, so a report can be overwritten by a stale copy after the
	// control plane has seen it. The harness keeps the newest stamp of each kind per uid and reads
	// "latest timestamp wins" itself; with equal stamps (one-second resolution) the
	// implementation's answer follows map order and either is accepted.
	seen, ok := w.rtSeen[uid]
	if !ok {
		return false, "no teardown report for it"
	}
	if seen.del.IsZero() || seen.del.Before(seen.ini) {
		return false, "its teardown is not reported"
	}
	return true, ""
}

// ---------------------------------------------------------------------------------------
// oracles on API writes (C02, C03)

func (w *World) onAPIWrite(op string, obj client.Object) {
	switch o := obj.(type) {
	case *networkv1beta1.Node:
		if strings.HasPrefix(op, "status") {
			w.statusWrites++
			if truth := w.truthNode(); truth != nil {
				simrt.Log("status", "%s", compactStatus(truth))
				for id := range truth.Status.NetworkInterfaces {
					w.everRecorded[id] = true
				}
				w.checkNodeStatus(truth)
				w.prevNode = truth.DeepCopy()
			}
		}
	case *networkv1beta1.NodeRuntime:
		_ = o
		w.checkRuntimeWrite()
	}
}

func (w *World) uidBound(uid string) bool {
	for _, r := range flatten(w.truthNode()) {
		if r.ip.PodUID == uid {
			return true
		}
	}
	return false
}

func (w *World) podByID(podID string) *podState {
	for _, p := range w.pods {
		if ns+"/"+p.spec.Name == podID {
			return p
		}
	}
	return nil
}

// boundRecently: the addresses were bound to the pod in some version of the record the agent can
// have read during the request.
func (w *World) boundRecently(podID, v4, v6 string, begin time.Time) bool {
	// the agent reads the record once during the request: any version from the request's start on
	// (and, through the cache, up to the lag older) may be the one it answered from
	lag := time.Duration(w.cfg.CacheLagMs)*time.Millisecond + time.Since(begin)
	ok4, ok6 := v4 == "", v6 == ""
	for _, ip := range []string{v4, v6} {
		if ip == "" {
			continue
		}
		if t, ok := w.unboundAt[podID+"|"+ip]; ok && time.Since(t) <= lag+time.Second {
			if ip == v4 {
				ok4 = true
			} else {
				ok6 = true
			}
		}
	}
	node := w.truthNode()
	b4, b6, _ := bindingsOf(node, podID)
	return (ok4 || contains(b4, v4)) && (ok6 || contains(b6, v6))
}

func (w *World) checkNodeStatus(cur *networkv1beta1.Node) {
	w.run.Eval()
	prev := flatten(w.prevNode)
	now := flatten(cur)
	for ip, pr := range prev {
		if pr.ip.PodID != "" {
			if nr, ok := now[ip]; !ok || nr.ip.PodID != pr.ip.PodID {
				w.unboundAt[pr.ip.PodID+"|"+ip] = time.Now()
			}
		}
	}
	// ---- C02: shape of the bindings
	type bind struct{ v4, v6, e4, e6 []string }
	per := map[string]*bind{}
	for _, ip := range sortedIPs(now) {
		r := now[ip]
		if r.ip.PodID == "" {
			continue
		}
		b := per[r.ip.PodID]
		if b == nil {
			b = &bind{}
			per[r.ip.PodID] = b
		}
		if r.family == "v4" {
			b.v4, b.e4 = append(b.v4, ip), append(b.e4, r.eni.ID)
		} else {
			b.v6, b.e6 = append(b.v6, ip), append(b.e6, r.eni.ID)
		}
	}
	pods := make([]string, 0, len(per))
	for k := range per {
		pods = append(pods, k)
	}
	sort.Strings(pods)
	for _, podID := range pods {
		b := per[podID]
		if len(b.v4) > 1 || len(b.v6) > 1 {
			w.run.Violate("C02", "binding-shape", "pod-bound-to-two-addresses-of-a-family", "pod %s is bound to %v / %v", podID, b.v4, b.v6)
		}
		if len(b.v4) == 1 && len(b.v6) == 1 && b.e4[0] != b.e6[0] {
			w.run.Violate("C02", "binding-shape", "dual-stack-binding-on-two-interfaces", "pod %s has %s on %s and %s on %s", podID, b.v4[0], b.e4[0], b.v6[0], b.e6[0])
		}
		// a pod that already reported an address when this pass began (and still does) is bound
		// by this pass to exactly that address or to nothing
		if p := w.podByID(podID); p != nil && p.exists && w.passStartUID[p.spec.Name] == p.uid {
			if pod := w.truthPod(p.spec.Name); pod != nil {
				rep4, rep6 := reported(pod)
				was := w.passStartRep[p.spec.Name]
				if rep4 != "" && was[0] == rep4 && len(b.v4) == 1 && b.v4[0] != rep4 && prev[b.v4[0]].ip != nil && prev[b.v4[0]].ip.PodID != podID {
					w.run.Violate("C02", "adoption", "pod-bound-to-other-than-reported-address", "pod %s reports %s and this pass bound it to %s", podID, rep4, b.v4[0])
				}
				if rep6 != "" && was[1] == rep6 && len(b.v6) == 1 && b.v6[0] != rep6 && prev[b.v6[0]].ip != nil && prev[b.v6[0]].ip.PodID != podID {
					w.run.Violate("C02", "adoption", "pod-bound-to-other-than-reported-address", "pod %s reports %s and this pass bound it to %s", podID, rep6, b.v6[0])
				}
			}
		}
	}
	// ---- C02: every binding created by this write targets a usable address
	for _, ip := range sortedIPs(now) {
		r := now[ip]
		if r.ip.PodID == "" {
			continue
		}
		if pr, ok := prev[ip]; ok && pr.ip.PodID == r.ip.PodID {
			continue
		}
		p := w.podByID(r.ip.PodID)
		adopted := false
		if p != nil && p.exists {
			if pod := w.truthPod(p.spec.Name); pod != nil {
				a4, a6 := reported(pod)
				adopted = ip == a4 || ip == a6
			}
		}
		tag := ""
		if adopted {
			tag = "@adopted"
		}
		if r.ip.Status != networkv1beta1.IPStatusValid {
			w.run.Violate("C02", "binding-target", "bound-address-not-valid"+tag, "pod %s newly bound to %s whose status is %s", r.ip.PodID, ip, r.ip.Status)
		}
		if r.eni.Status != aliyunClient.ENIStatusInUse {
			w.run.Violate("C02", "binding-target", "bound-on-interface-not-in-use"+tag, "pod %s newly bound to %s on %s whose status is %s", r.ip.PodID, ip, r.eni.ID, r.eni.Status)
		}
		if p != nil && w.cfg.ERDMA {
			hp := r.eni.NetworkInterfaceTrafficMode == networkv1beta1.NetworkInterfaceTrafficModeHighPerformance
			if p.spec.RDMA && !hp && !adopted {
				w.run.Violate("C02", "binding-target", "rdma-pod-on-ordinary-interface", "RDMA pod %s bound to %s on ordinary interface %s", r.ip.PodID, ip, r.eni.ID)
			}
			if !p.spec.RDMA && hp && !adopted {
				w.run.Violate("C02", "binding-target", "ordinary-pod-on-rdma-interface", "pod %s bound to %s on RDMA interface %s", r.ip.PodID, ip, r.eni.ID)
			}
		}
	}
	// ---- C08: trimming the idle reserve stops at max. A write that newly marks idle addresses
	// (or an idle interface) for deletion must leave at least max usable idle addresses of the
	// family the pool is counted in - unless the pass also read the cloud, which may remove
	// addresses on its own.
	if w.cloud.fullReads == w.passStartFullReads {
		main := "v4"
		if !w.cfg.v4() {
			main = "v6"
		}
		usable := func(r ipRec) bool {
			return r.family == main && r.ip.PodID == "" && r.ip.Status == networkv1beta1.IPStatusValid && r.eni.Status == aliyunClient.ENIStatusInUse
		}
		trimmed, left := 0, 0
		for _, ip := range sortedIPs(prev) {
			if nr, ok := now[ip]; usable(prev[ip]) && ok && nr.ip.PodID == "" && !usable(nr) {
				trimmed++
			}
		}
		for _, r := range now {
			if usable(r) {
				left++
			}
		}
		if trimmed > 0 && left < w.cfg.MaxPool {
			w.run.Violate("C08", "band", "trim-below-max", "a status write marked %d idle %s addresses for deletion and leaves %d usable idle ones; max_pool is %d", trimmed, main, left, w.cfg.MaxPool)
		}
	}
	// ---- C03: nothing bound is taken away before the pod is gone and its teardown reported
	// (cloud drift is outside what C03 ranges over: when the cloud lost one of a pod's addresses,
	// the record follows, and in dual stack the pod's other address goes with it)
	drifted := map[string]bool{}
	for ip, pr := range prev {
		if pr.ip.PodID != "" && !w.cloud.hasIP(ip) {
			drifted[pr.ip.PodID] = true
		}
	}
	for _, ip := range sortedIPs(prev) {
		pr := prev[ip]
		if pr.ip.PodID == "" || drifted[pr.ip.PodID] {
			continue
		}
		nr, still := now[ip]
		what := ""
		switch {
		case !still:
			what = "removed from the record"
		case nr.ip.PodID != pr.ip.PodID:
			what = fmt.Sprintf("unbound (now %q)", nr.ip.PodID)
		case nr.ip.Status == networkv1beta1.IPStatusDeleting && pr.ip.Status != networkv1beta1.IPStatusDeleting:
			what = "marked for deletion"
		case nr.eni.Status == aliyunClient.ENIStatusDeleting && pr.eni.Status != aliyunClient.ENIStatusDeleting:
			what = "on an interface marked for deletion"
		}
		if what == "" {
			continue
		}
		if !w.cloud.hasIP(ip) {
			continue // the cloud no longer has the address (drift): the record follows
		}
		if ok, why := w.teardownConfirmed(pr.ip.PodID, pr.ip.PodUID); !ok {
			fp := "bound-address-reclaimed-early"
			if pod := w.truthPod(strings.TrimPrefix(pr.ip.PodID, ns+"/")); pr.ip.PodUID == "" && pod != nil && w.firstOwner[ip] != "" && string(pod.UID) != w.firstOwner[ip] {
				// K8 for a taken-over binding (no uid in the record): the pod that exists is a
				// namesake of the pod the binding was made for
				fp += "@inherited-by-namesake"
			} else if pr.ip.PodUID == "" {
				fp += "@binding-without-uid"
			} else if pod != nil && string(pod.UID) != pr.ip.PodUID {
				// K8: a new pod of the same name took the binding of its vanished predecessor over
				// (by name), then the controller dropped it: the predecessor's teardown was never
				// waited for
				fp += "@inherited-by-namesake"
			}
			w.run.Violate("C03", "reclaim-safety", fp, "address %s bound to %s (uid %q) was %s in a status write although %s", ip, pr.ip.PodID, pr.ip.PodUID, what, why)
		}
	}
}

func reported(pod *corev1.Pod) (v4, v6 string) {
	ips := []string{pod.Status.PodIP}
	for _, x := range pod.Status.PodIPs {
		ips = append(ips, x.IP)
	}
	for _, s := range ips {
		if a, err := netip.ParseAddr(s); err == nil {
			if a.Is4() {
				v4 = s
			} else {
				v6 = s
			}
		}
	}
	return
}

func (c *Cloud) hasIP(ip string) bool {
	for _, e := range c.enis {
		for _, x := range e.V4 {
			if x == ip {
				return true
			}
		}
		for _, x := range e.V6 {
			if x == ip {
				return true
			}
		}
	}
	return false
}

// onRemoval is called by the cloud stub before a detach/delete/unassign takes effect (C03).
func (w *World) onRemoval(site, eniID string, ips []string) {
	w.run.Eval()
	node := w.truthNode()
	if node == nil {
		return
	}
	all := flatten(node)
	for _, ip := range sortedIPs(all) {
		r := all[ip]
		if r.eni.ID != eniID || r.ip.PodID == "" {
			continue
		}
		if ips != nil && !contains(ips, ip) {
			continue
		}
		if ok, why := w.teardownConfirmed(r.ip.PodID, r.ip.PodUID); !ok {
			w.run.Violate("C03", "reclaim-safety", "cloud-"+strings.TrimRight(site, "46")+"-of-bound-address", "%s of %s touches %s which the record binds to %s (uid %q) although %s", site, eniID, ip, r.ip.PodID, r.ip.PodUID, why)
		}
	}
}

// checkRuntimeWrite is the daemon half of C03: a teardown report needs a processed DEL or an absent pod.
func (w *World) checkRuntimeWrite() {
	rt := w.truthRuntime()
	if rt == nil {
		return
	}
	w.run.Eval()
	uids := make([]string, 0, len(rt.Status.Pods))
	for u := range rt.Status.Pods {
		uids = append(uids, u)
	}
	sort.Strings(uids)
	var b strings.Builder
	for _, uid := range uids {
		st := rt.Status.Pods[uid]
		if st == nil {
			continue
		}
		seen := w.rtSeen[uid]
		seen.present = true
		if v := st.Status[networkv1beta1.CNIStatusInitial]; v != nil && v.LastUpdateTime.Time.After(seen.ini) {
			seen.ini = v.LastUpdateTime.Time
		}
		if v := st.Status[networkv1beta1.CNIStatusDeleted]; v != nil && v.LastUpdateTime.Time.After(seen.del) {
			seen.del = v.LastUpdateTime.Time
		}
		if i, d := st.Status[networkv1beta1.CNIStatusInitial], st.Status[networkv1beta1.CNIStatusDeleted]; i != nil && d != nil {
			switch {
			case d.LastUpdateTime.Time.Equal(i.LastUpdateTime.Time):
				seen.tied = true
			case seen.tied && d.LastUpdateTime.Time.After(i.LastUpdateTime.Time):
				seen.tied, seen.untiedAt = false, time.Now()
			}
		}
		w.rtSeen[uid] = seen
		fmt.Fprintf(&b, "%s[%s", uid, st.PodID)
		for _, k := range []networkv1beta1.CNIStatus{networkv1beta1.CNIStatusInitial, networkv1beta1.CNIStatusDeleted} {
			if v := st.Status[k]; v != nil {
				fmt.Fprintf(&b, " %s@%s", k, v.LastUpdateTime.Format("15:04:05"))
			}
		}
		b.WriteString("] ")
	}
	simrt.Log("runtime", "%s", b.String())
	// a write that drops an entry whose address is still bound, or drops a stamp, is one writer
	// undoing the other with a stale copy: the reclaim is put off by a collection period
	for uid, seen := range w.rtSeen {
		st := rt.Status.Pods[uid]
		lost := false
		switch {
		case st == nil:
			lost = seen.present && w.uidBound(uid)
			seen.present = false
		case !seen.del.IsZero() && st.Status[networkv1beta1.CNIStatusDeleted] == nil:
			lost = !seen.delLost
			seen.delLost = true
		}
		if lost {
			seen.lost++
			w.run.Probe("runtime-object-stale-overwrite")
		}
		w.rtSeen[uid] = seen
	}
	for _, uid := range uids {
		st := rt.Status.Pods[uid]
		if st == nil || st.Status[networkv1beta1.CNIStatusDeleted] == nil {
			continue
		}
		if w.delProcessed[uid] || w.addFailed[uid] || w.cniInFlight[uid] > 0 {
			continue
		}
		if w.addInFlight[uid] > 0 {
			w.suspectReport[uid] = true // judged when the ADD returns
			continue
		}
		name := strings.TrimPrefix(st.PodID, ns+"/")
		if pod := w.truthPod(name); pod != nil && string(pod.UID) == uid {
			w.run.Violate("C03", "report-safety", "teardown-reported-for-live-pod", "the node agent reported teardown for %s (uid %s) although no DEL for it was processed and the pod exists", st.PodID, uid)
		}
	}
}
