// Package worldx is World X: centralised IPAM — the real multi-ip node reconciler, the real
// vSwitch pool, and per node the real daemon in CRD mode (networkService + eni.CRDV2 + GC +
// pkg/k8s), against a simulated API server, a simulated cloud behind register.Interface and a
// kubelet/scheduler/CNI workload model.
package worldx

import (
	"context"
	"encoding/json"
	"fmt"
	"github.com/boltdb/bolt"
	"math/rand/v2"
	"os"
	"path/filepath"
	"sort"
	"sync"
	"testing"
	"time"

	"github.com/go-logr/logr"
	corev1 "k8s.io/api/core/v1"
	"k8s.io/apimachinery/pkg/api/resource"
	metav1 "k8s.io/apimachinery/pkg/apis/meta/v1"
	k8stypes "k8s.io/apimachinery/pkg/types"
	"sigs.k8s.io/controller-runtime/pkg/client"
	logf "sigs.k8s.io/controller-runtime/pkg/log"
	"sigs.k8s.io/controller-runtime/pkg/reconcile"

	terwaydaemon "github.com/AliyunContainerService/terway/daemon"
	aliyunClient "github.com/AliyunContainerService/terway/pkg/aliyun/client"
	networkv1beta1 "github.com/AliyunContainerService/terway/pkg/apis/network.alibabacloud.com/v1beta1"
	nodectl "github.com/AliyunContainerService/terway/pkg/controller/multi-ip/node"
	"github.com/AliyunContainerService/terway/pkg/eni"
	"github.com/AliyunContainerService/terway/pkg/k8s"
	"github.com/AliyunContainerService/terway/pkg/storage"
	"github.com/AliyunContainerService/terway/pkg/vswitch"
	"github.com/AliyunContainerService/terway/types"
	"github.com/AliyunContainerService/terway/types/daemon"

	"verif/sim/kit"
	"verif/sim/simrt"
)

func init() { logf.SetLogger(logr.Discard()) }

const (
	nodeName   = "node-1"
	instanceID = "i-1"
	ns         = "default"
)

type PreENI struct {
	Type    string `json:"type"` // Secondary | Trunk
	RDMA    bool   `json:"rdma,omitempty"`
	V4      int    `json:"v4"`
	V6      int    `json:"v6"`
	Foreign bool   `json:"foreign,omitempty"` // lacks the controller's tags
}

type PodSpec struct {
	Name     string `json:"name"`
	RDMA     bool   `json:"rdma,omitempty"`
	Existing bool   `json:"existing,omitempty"` // exists at start and reports an address of a pre-attached interface
	Partial  string `json:"partial,omitempty"`  // dual stack, existing pod: it reports (and is recorded with) this family only ("v4" | "v6")
}

type Config struct {
	Stack       string    `json:"stack"`
	Adapters    int       `json:"adapters"`
	IPv4Per     int       `json:"ipv4_per"`
	IPv6Per     int       `json:"ipv6_per"`
	Trunk       bool      `json:"trunk"`
	ERDMA       bool      `json:"erdma"`
	MinPool     int       `json:"min_pool"`
	MaxPool     int       `json:"max_pool"`
	PreENIs     []PreENI  `json:"pre_enis"`
	Pods        []PodSpec `json:"pods"`
	CacheLagMs  int       `json:"cache_lag_ms,omitempty"`  // > 0: controller and agent read through an informer cache lagging by up to this much
	CacheSyncMs int       `json:"cache_sync_ms,omitempty"` // phase between the agent's CRD loops and its collection loop
	Populated   string    `json:"populated"`               // "" | "synced" | "bound" | "bound-no-uid": initial Node status
	GCPeriodS   int       `json:"gc_period_s"`
	HeartbeatS  int       `json:"heartbeat_s"`
}

func (c *Config) v4() bool { return c.Stack == "v4" || c.Stack == "dual" }
func (c *Config) v6() bool { return c.Stack == "v6" || c.Stack == "dual" }

type Op struct {
	AddDelayMs int    `json:"add_delay_ms,omitempty"` // up: time the runtime takes between the pod object appearing and the CNI ADD
	Kind       string `json:"kind"`                   // up down reup sleep drift-ip drift-eni restart-daemon restart-ctrl barrier
	Pod        int    `json:"pod,omitempty"`
	Order      string `json:"order,omitempty"` // for down: del-obj | obj-del | obj-only | del-only
	Async      bool   `json:"async,omitempty"`
	DelayMs    int    `json:"delay_ms,omitempty"`
	SleepS     int    `json:"sleep_s,omitempty"`
	N          int    `json:"n,omitempty"`
}

type PlannedFault struct {
	Site string `json:"site"`
	Nth  int    `json:"nth"`
	Kind string `json:"kind"`
}

type Scenario struct {
	Profile   string         `json:"profile"`
	Cfg       Config         `json:"cfg"`
	Ops       []Op           `json:"ops"`
	Faults    []PlannedFault `json:"faults,omitempty"`
	LatencyMs int            `json:"latency_ms"`
	SettleS   int            `json:"settle_s"`
	Strict    bool           `json:"strict"`
}

type podState struct {
	spec    PodSpec
	uid     string
	uidGen  int
	exists  bool
	sb      int
	sbs     []string // sandboxes of the current pod (uid) for which an ADD was invoked
	downUID string   // uid for which the runtime has begun tearing the pod down
	sbLive  bool
	exited  bool            // the pod object remains but its sandbox has exited (phase Succeeded)
	v4, v6  string          // what the pod reports (status)
	delUIDs map[string]bool // UIDs for which a DEL was processed by the daemon (passed the gate)
	goneAt  time.Time
	delDone time.Time
}

type rtStamps struct {
	ini, del         time.Time
	present, delLost bool
	lost             int       // times a stale copy undid the entry or its teardown stamp
	tied             bool      // the runtime object shows "initial" and "deleted" with the same stamp
	untiedAt         time.Time // when a later "deleted" stamp ended such a tie
}

type World struct {
	run   *kit.Run
	sc    *Scenario
	cfg   *Config
	cloud *Cloud
	api   *kit.SimAPI
	pods  []*podState
	dir   string

	ctl        *nodectl.ReconcileNode
	vsw        *vswitch.SwitchPool
	trigger    chan struct{}
	ctlGen     int
	ctlStop    map[int]chan struct{}
	restartCtl bool
	// inReconcile: a Reconcile call is between entry and return.
	inReconcile bool
	// unsynced: a reconcile failed and the controller has not read the cloud since; amnesia: the
	// controller was then restarted, which loses its in-memory note that a full sync is due.
	unsynced, amnesia bool

	gen    int
	ctx    context.Context
	cancel context.CancelFunc
	svc    *terwaydaemon.SimService
	wg     sync.WaitGroup

	faultsOn  bool
	faultIdx  map[string]int
	faultPlan map[string]string

	pendingInstance    map[string]string
	pendingSince       map[string]int       // reconcile number in which the interface was created
	cniInFlight        map[string]int       // pod uid -> CNI DEL requests between invoke and return
	addInFlight        map[string]int       // pod uid -> ADD requests between invoke and return
	suspectReport      map[string]bool      // pod uid -> a teardown report was seen while only an ADD was in flight
	passStartFullReads int                  // cloud.fullReads when the current reconcile began
	passStartRep       map[string][2]string // pod name -> addresses the pod reported when the current reconcile began
	passStartUID       map[string]string    // pod name -> uid, for the pods that existed when the current reconcile began
	unboundAt          map[string]time.Time // pod|address -> when a status write took the binding away
	firstOwner         map[string]string    // address -> uid of the pod a taken-over binding was set up for
	reportLost         map[string]bool      // pod uid -> the agent restarted before its teardown report reached the runtime object
	rtSeen             map[string]rtStamps  // pod uid -> newest CNI stamps the agent ever wrote to the runtime object
	delComplete        map[string]bool      // pod uid -> the DEL of every sandbox of the pod returned success
	addOK              map[string]bool      // pod uid -> an ADD for it succeeded: the agent holds a record of the pod
	addFailed          map[string]bool      // pod uid -> an ADD for it failed (and was rolled back by the agent)
	everRecorded       map[string]bool      // interface ids that appeared in a record that reached the API server
	pending            []chan struct{}

	// truth mirrors maintained from API writes
	prevNode     *networkv1beta1.Node
	statusWrites int
	delProcessed map[string]bool // pod UID -> a DEL passed the daemon's gate
	reconciles   int
	lastMutation int
}

func (w *World) pick(n int, tag string) int { return w.run.S.Choose(n, tag) }

func (w *World) faultAt(site string) string {
	n := w.faultIdx[site]
	w.faultIdx[site] = n + 1
	if !w.faultsOn {
		return ""
	}
	return w.faultPlan[fmt.Sprintf("%s#%d", site, n)]
}

// ---------------------------------------------------------------------------------------

type ClusterWorld struct{}

func (ClusterWorld) Name() string { return "X" }
func (ClusterWorld) Components() map[string][]string {
	return map[string][]string{
		"real": {"pkg/controller/multi-ip/node ReconcileNode (Reconcile, syncWithAPI, syncPods, releasePodNotFound, assignIPFromLocalPool, addIP, createENI with rollback, assignIP, gc, handleStatus, adjustPool)",
			"pkg/vswitch SwitchPool", "daemon.networkService in CRD mode (AllocIP, ReleaseIP, GetIPInfo, gcPods, cleanRuntimeNode)", "pkg/eni CRDV2 (multiIP, Release, syncNodeRuntime, syncDeletedPods)",
			"pkg/k8s", "pkg/storage DiskStorage + bolt", "pkg/utils RuntimeFinalStatus", "controller-runtime fake client (API server)"},
		"stub": {"register.Interface -> SimCloud (control-plane front-end, incl. timeout-after-effect)", "controller-runtime manager / work queue (reconciles are started by the simulator: pod events, node heartbeat, RequeueAfter, error back-off)",
			"kubelet, scheduler, CNI plugin (workload model)", "pkg/controller/node and pkg/eni/node_reconcile.go (the Node CR spec is generated directly)", "CRDV2's controller-runtime manager (only its two periodic loops run)"},
	}
}

func (ClusterWorld) Decode(raw json.RawMessage) (any, error) {
	sc := &Scenario{}
	return sc, json.Unmarshal(raw, sc)
}

func (ClusterWorld) Generate(rng *rand.Rand, prop, tier string) any { return generate(rng, prop, tier) }

var runCounter int

func (ClusterWorld) Run(t *testing.T, scAny any, chooser simrt.Chooser, keepLog bool) *kit.Result {
	sc := scAny.(*Scenario)
	runCounter++
	base := os.Getenv("VERIF_TMP")
	if base == "" {
		base = "/dev/shm"
	}
	dir := filepath.Join(base, fmt.Sprintf("verif-x-%d-%d", os.Getpid(), runCounter))
	_ = os.MkdirAll(dir, 0o755)
	defer os.RemoveAll(dir)
	res := kit.Execute(t, chooser, keepLog, 600_000, func(run *kit.Run) {
		w := &World{run: run, sc: sc, cfg: &sc.Cfg, dir: dir, faultIdx: map[string]int{}, faultPlan: map[string]string{},
			pendingInstance: map[string]string{}, pendingSince: map[string]int{}, everRecorded: map[string]bool{}, cniInFlight: map[string]int{}, addInFlight: map[string]int{}, suspectReport: map[string]bool{}, addFailed: map[string]bool{}, addOK: map[string]bool{}, delComplete: map[string]bool{}, rtSeen: map[string]rtStamps{}, unboundAt: map[string]time.Time{}, firstOwner: map[string]string{}, reportLost: map[string]bool{}, delProcessed: map[string]bool{}, trigger: make(chan struct{}, 1)}
		w.main()
	})
	closeDBs()
	return res
}

func (ClusterWorld) Shrink(scAny any) []any {
	sc := scAny.(*Scenario)
	clone := func() *Scenario {
		b, _ := json.Marshal(sc)
		c := &Scenario{}
		_ = json.Unmarshal(b, c)
		return c
	}
	var out []any
	for i := range sc.Faults {
		c := clone()
		c.Faults = append(c.Faults[:i], c.Faults[i+1:]...)
		out = append(out, c)
	}
	if n := len(sc.Ops); n > 3 {
		c := clone()
		c.Ops = c.Ops[:n/2]
		out = append(out, c)
	}
	for i := len(sc.Ops) - 1; i >= 0; i-- {
		c := clone()
		c.Ops = append(c.Ops[:i], c.Ops[i+1:]...)
		out = append(out, c)
	}
	if len(sc.Cfg.PreENIs) > 0 {
		c := clone()
		c.Cfg.PreENIs = c.Cfg.PreENIs[:len(c.Cfg.PreENIs)-1]
		out = append(out, c)
	}
	if sc.LatencyMs > 0 {
		c := clone()
		c.LatencyMs = 0
		out = append(out, c)
	}
	return out
}

// ---------------------------------------------------------------------------------------
// objects

func (w *World) podObject(p *podState) *corev1.Pod {
	pod := &corev1.Pod{
		ObjectMeta: metav1.ObjectMeta{Name: p.spec.Name, Namespace: ns, UID: k8stypes.UID(p.uid)},
		Spec:       corev1.PodSpec{NodeName: nodeName, Containers: []corev1.Container{{Name: "c", Image: "i"}}},
		Status:     corev1.PodStatus{Phase: corev1.PodPending},
	}
	if p.spec.RDMA {
		pod.Spec.Containers[0].Resources.Limits = corev1.ResourceList{"aliyun/erdma": resource.MustParse("1")}
	}
	return pod
}

// snapshotPassStart notes what a reconcile that begins now can know about the pods.
func (w *World) snapshotPassStart() {
	w.passStartFullReads = w.cloud.fullReads
	w.passStartUID, w.passStartRep = map[string]string{}, map[string][2]string{}
	for _, p := range w.pods {
		// what a pass that begins now can read: the cache's view of the pod
		pod := &corev1.Pod{ObjectMeta: metav1.ObjectMeta{Name: p.spec.Name, Namespace: ns}}
		if !w.api.Peek(pod) {
			continue
		}
		w.passStartUID[p.spec.Name] = string(pod.UID)
		v4, v6 := reported(pod)
		w.passStartRep[p.spec.Name] = [2]string{v4, v6}
	}
}

func (w *World) createPod(p *podState) {
	p.uidGen++
	p.uid = fmt.Sprintf("uid-%s-%d", p.spec.Name, p.uidGen)
	p.exists = true
	p.exited = false
	p.sbs = nil
	p.v4, p.v6 = "", ""
	obj := w.podObject(p)
	if err := w.api.DirectWrite(obj, func() error { return w.api.Inner.Create(context.Background(), obj) }); err != nil {
		panic(fmt.Sprintf("harness: create pod: %v", err))
	}
	w.run.S.Log("kubelet", "pod %s created uid=%s", p.spec.Name, p.uid)
	w.notify()
}

func (w *World) deletePod(p *podState) {
	p.exists = false
	p.goneAt = time.Now()
	gone := &corev1.Pod{ObjectMeta: metav1.ObjectMeta{Name: p.spec.Name, Namespace: ns}}
	_ = w.api.DirectWrite(gone, func() error { return w.api.Inner.Delete(context.Background(), gone) })
	w.run.S.Log("kubelet", "pod object %s deleted", p.spec.Name)
}

func (w *World) setPodStatus(p *podState, phase corev1.PodPhase, v4, v6 string) {
	pod := &corev1.Pod{}
	if err := w.api.Inner.Get(context.Background(), client.ObjectKey{Namespace: ns, Name: p.spec.Name}, pod); err != nil {
		return
	}
	pod.Status.Phase = phase
	pod.Status.PodIP, pod.Status.PodIPs = "", nil
	for _, ip := range []string{v4, v6} {
		if ip == "" {
			continue
		}
		if pod.Status.PodIP == "" {
			pod.Status.PodIP = ip
		}
		pod.Status.PodIPs = append(pod.Status.PodIPs, corev1.PodIP{IP: ip})
	}
	_ = w.api.DirectWrite(pod, func() error { return w.api.Inner.Status().Update(context.Background(), pod) })
	p.v4, p.v6 = v4, v6
}

func (w *World) notify() {
	select {
	case w.trigger <- struct{}{}:
	default:
	}
}

func (w *World) nodeSpec() networkv1beta1.NodeSpec {
	c := w.cfg
	total := c.Adapters - 1
	trunk, rdma := 0, 0
	if c.Trunk {
		trunk = 1
	}
	if c.ERDMA {
		rdma = 1
	}
	sec := max(total-trunk-rdma, 0)
	spec := networkv1beta1.NodeSpec{
		NodeMetadata: networkv1beta1.NodeMetadata{RegionID: "cn-sim", InstanceType: "ecs.sim", InstanceID: instanceID, ZoneID: "zone-a"},
		NodeCap:      networkv1beta1.NodeCap{Adapters: c.Adapters, TotalAdapters: c.Adapters, IPv4PerAdapter: c.IPv4Per, IPv6PerAdapter: c.IPv6Per, EriQuantity: rdma},
		ENISpec: &networkv1beta1.ENISpec{
			Tag:              map[string]string{"cluster": "c1"},
			TagFilter:        map[string]string{"cluster": "c1"},
			VSwitchOptions:   []string{"vsw-1", "vsw-2"},
			SecurityGroupIDs: []string{"sg-1"},
			EnableIPv4:       c.v4(), EnableIPv6: c.v6(), EnableERDMA: c.ERDMA, EnableTrunk: c.Trunk,
			VSwitchSelectPolicy: networkv1beta1.VSwitchSelectionPolicyOrdered,
		},
		Pool: &networkv1beta1.PoolSpec{MaxPoolSize: c.MaxPool, MinPoolSize: c.MinPool},
		Flavor: []networkv1beta1.Flavor{
			{NetworkInterfaceType: networkv1beta1.ENITypeSecondary, NetworkInterfaceTrafficMode: networkv1beta1.NetworkInterfaceTrafficModeStandard, Count: sec},
		},
	}
	if trunk > 0 {
		spec.Flavor = append(spec.Flavor, networkv1beta1.Flavor{NetworkInterfaceType: networkv1beta1.ENITypeTrunk, NetworkInterfaceTrafficMode: networkv1beta1.NetworkInterfaceTrafficModeStandard, Count: 1})
	}
	if rdma > 0 {
		spec.Flavor = append(spec.Flavor, networkv1beta1.Flavor{NetworkInterfaceType: networkv1beta1.ENITypeSecondary, NetworkInterfaceTrafficMode: networkv1beta1.NetworkInterfaceTrafficModeHighPerformance, Count: 1})
	}
	return spec
}

// ---------------------------------------------------------------------------------------
// daemon (CRD mode)

type yieldStorage struct {
	w     *World
	inner storage.Storage
}

func (y *yieldStorage) Put(key string, value interface{}) error {
	simrt.Yield("store.put")
	if y.w.faultAt("disk.put") != "" {
		y.w.run.Fault("disk.put.err")
		return fmt.Errorf("injected disk error")
	}
	return y.inner.Put(key, value)
}
func (y *yieldStorage) Get(key string) (interface{}, error) { return y.inner.Get(key) }
func (y *yieldStorage) List() ([]interface{}, error) {
	l, err := y.inner.List()
	sort.SliceStable(l, func(i, j int) bool { return fmt.Sprint(l[i]) < fmt.Sprint(l[j]) })
	for i := len(l) - 1; i > 0; i-- {
		j := simrt.Choose(i+1, "store.list")
		l[i], l[j] = l[j], l[i]
	}
	return l, err
}
func (y *yieldStorage) Delete(key string) error {
	simrt.Yield("store.delete")
	if y.w.faultAt("disk.delete") != "" {
		y.w.run.Fault("disk.delete.err")
		return fmt.Errorf("injected disk error")
	}
	return y.inner.Delete(key)
}

func resDeserializer(b []byte) (interface{}, error) {
	r := &daemon.PodResources{}
	if err := json.Unmarshal(b, r); err != nil {
		return nil, err
	}
	return *r, nil
}

func (w *World) startDaemon() error {
	w.gen++
	gen := w.gen
	w.ctx, w.cancel = context.WithCancel(context.Background())
	dir := w.dir
	resPath := filepath.Join(dir, fmt.Sprintf("ResRelation-%d.db", gen))
	podPath := filepath.Join(dir, fmt.Sprintf("pod-%d.db", gen))
	if gen > 1 {
		// a restart keeps the files (copied: the frozen previous process still holds its handles)
		_ = copyFile(filepath.Join(dir, fmt.Sprintf("ResRelation-%d.db", gen-1)), resPath)
		_ = copyFile(filepath.Join(dir, fmt.Sprintf("pod-%d.db", gen-1)), podPath)
	}
	res, err := storage.NewDiskStorage("relation", resPath, json.Marshal, resDeserializer)
	if err != nil {
		return err
	}
	trackDB(res)
	if db := storage.BoltDBForSim(res); db != nil {
		db.NoSync = true
	}
	ser, de := k8s.PodCacheSerializers()
	podDB, err := storage.NewDiskStorage("pods", podPath, ser, de)
	if err != nil {
		return err
	}
	trackDB(podDB)
	if db := storage.BoltDBForSim(podDB); db != nil {
		db.NoSync = true
	}
	svcCIDR := &types.IPNetSet{}
	svcCIDR.SetIPNet("172.16.0.0/16")
	knode := &corev1.Node{ObjectMeta: metav1.ObjectMeta{Name: nodeName, UID: "node-uid"}}
	kk := k8s.NewForSim(w.api.Direct, &yieldStorage{w, podDB}, daemon.ModeENIMultiIP, nodeName, "kube-system", knode, svcCIDR, w.cfg.ERDMA)
	crd := eni.NewCRDV2ForSim(w.api.Client, nodeName)
	crd.CacheSync = time.Duration(w.cfg.CacheSyncMs) * time.Millisecond
	mgr := eni.NewManager(0, 0, 0, 0, []eni.NetworkInterface{crd}, daemon.EniSelectionPolicyMostIPs, nil)
	w.svc = terwaydaemon.NewSimService(kk, &yieldStorage{w, res}, mgr, daemon.ModeENIMultiIP, types.IPAMTypeCRD, w.cfg.v4(), w.cfg.v6(), false)
	started := make(chan error, 1)
	dctx := w.ctx
	w.run.S.GoNamed("daemon-start", gen, func() {
		started <- mgr.Run(dctx, &w.wg, nil)
	})
	if err := simrt.Recv(started); err != nil {
		return err
	}
	svc := w.svc
	w.run.S.GoNamed("gc-loop", gen, func() { svc.StartGCLoop(dctx) })
	return nil
}

// ---------------------------------------------------------------------------------------
// controller runner (what controller-runtime's manager and work queue do)

func (w *World) newController() {
	var err error
	w.vsw, err = vswitch.NewSwitchPool(100, "10m")
	if err != nil {
		panic(err)
	}
	gc := time.Duration(w.cfg.GCPeriodS) * time.Second
	w.ctl = nodectl.NewReconcileNodeForSim(w.api.Client, w.cloud, w.vsw, 12*time.Hour, gc)
}

// startController runs what controller-runtime's manager and work queue do for one key: at
// most one reconcile at a time, started by events (pod events, node heartbeat), RequeueAfter
// and the error back-off. A controller restart is graceful: the reconcile in flight finishes,
// then a new reconciler (empty node cache, empty vSwitch cache) takes over.
func (w *World) startController() {
	w.ctlGen++
	gen := w.ctlGen
	w.api.ResetCache() // informers list before the first reconcile: what exists is in the cache
	w.newController()
	w.run.S.GoNamed("reconciler", 0, func() {
		backoff := time.Second
		hb := time.Duration(w.cfg.HeartbeatS) * time.Second
		var requeue <-chan time.Time
		for {
			t := time.NewTimer(hb)
			idx, _, _ := simrt.Select(false, simrt.RecvCase(w.trigger), simrt.RecvCase(requeue), simrt.RecvCase(t.C), simrt.RecvCase(w.stopCtl(gen)))
			t.Stop()
			if idx == 3 || gen != w.ctlGen {
				return
			}
			if idx == 2 {
				w.run.Probe("heartbeat-reconcile")
			}
			if w.restartCtl {
				w.restartCtl = false
				// idempotency tokens die with the process
				w.cloud.timedOut = map[string]string{}
				w.cloud.timedOutAssign = map[string][]aliyunClient.IPSet{}
				w.api.ResetCache()
				w.newController()
				backoff = time.Second
				if w.unsynced {
					w.amnesia = true
					w.run.Probe("controller-restarted-with-resync-pending")
				}
			}
			requeue = nil
			w.reconciles++
			before := w.cloud.mutations
			w.inReconcile = true
			w.snapshotPassStart()
			res, err := w.ctl.Reconcile(context.Background(), reconcile.Request{NamespacedName: k8stypes.NamespacedName{Name: nodeName}})
			w.inReconcile = false
			if err != nil {
				w.unsynced = true
			}
			w.run.S.Log("ctl", "reconcile #%d -> requeueAfter=%v err=%v cloudMutations=%d", w.reconciles, res.RequeueAfter, err != nil, w.cloud.mutations-before)
			if gen != w.ctlGen {
				return
			}
			switch {
			case err != nil:
				w.run.Probe("reconcile-error")
				requeue = time.After(backoff)
				backoff = min(backoff*2, 300*time.Second)
			case res.RequeueAfter > 0:
				backoff = time.Second
				requeue = time.After(res.RequeueAfter)
			default:
				backoff = time.Second
			}
		}
	})
}

func (w *World) stopCtl(gen int) chan struct{} {
	if w.ctlStop == nil {
		w.ctlStop = map[int]chan struct{}{}
	}
	if w.ctlStop[gen] == nil {
		w.ctlStop[gen] = make(chan struct{})
	}
	return w.ctlStop[gen]
}

func copyFile(src, dst string) error {
	b, err := os.ReadFile(src)
	if err != nil {
		return err
	}
	return os.WriteFile(dst, b, 0o600)
}

// openDBs are the bolt databases opened during the current run; they are closed after the run
// (outside the simulation), otherwise file descriptors and mapped tmpfs pages pile up over the
// hundred thousand runs of a thorough batch.
var openDBs []*bolt.DB

func trackDB(st storage.Storage) {
	if db := storage.BoltDBForSim(st); db != nil {
		openDBs = append(openDBs, db)
	}
}

func closeDBs() {
	if os.Getenv("VERIF_NO_CLOSE") != "" {
		openDBs = nil
		return
	}
	for _, db := range openDBs {
		done := make(chan struct{})
		go func() { _ = db.Close(); close(done) }()
		select {
		case <-done:
		case <-time.After(20 * time.Millisecond):
			// a task killed inside a page write still holds bolt's lock: drop the descriptor at least
			if f := db.SimFile(); f != nil {
				_ = f.Close()
			}
		}
	}
	openDBs = nil
}
