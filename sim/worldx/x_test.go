package worldx

import (
	"testing"

	"verif/sim/kit"
)

func TestWorker(t *testing.T)      { kit.Worker(t, ClusterWorld{}) }
func TestReplay(t *testing.T)      { kit.ReplayFile(t, ClusterWorld{}) }
func TestDeterminism(t *testing.T) { kit.Determinism(t, ClusterWorld{}) }
