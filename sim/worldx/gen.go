package worldx

import (
	"fmt"
	"math/rand/v2"
	"sort"
)

func oneOf[T any](rng *rand.Rand, xs ...T) T { return xs[rng.IntN(len(xs))] }

func pickW(rng *rand.Rand, items []string, weights []int) string {
	t := 0
	for _, w := range weights {
		t += w
	}
	x := rng.IntN(t)
	for i, w := range weights {
		if x < w {
			return items[i]
		}
		x -= w
	}
	return items[len(items)-1]
}

var faultKinds = map[string][]string{
	"cloud.create":      {"err", "quota-eni", "vsw", "quota-ip", "err-after", "slow", "throttle"},
	"cloud.attach":      {"err", "err-after", "never", "throttle"},
	"cloud.detach":      {"err", "err-after"},
	"cloud.delete":      {"err", "err-after"},
	"cloud.assign4":     {"err", "vsw", "quota-ip", "count4", "err-after", "slow"},
	"cloud.assign6":     {"err", "vsw", "quota-ip", "err-after", "slow"},
	"cloud.unassign4":   {"err", "err-after"},
	"cloud.unassign6":   {"err", "err-after"},
	"cloud.describe":    {"err", "throttle"},
	"cloud.wait":        {"err"},
	"api.status-update": {"err", "err-after", "conflict"},
	"api.get":           {"err"},
	"api.list":          {"err"},
	"api.patch":         {"err", "err-after"},
	"api.status-patch":  {"err"},
	"api.create":        {"err"},
	"disk.put":          {"err"},
}

// kind-specific API sites: their counters advance on calls for that kind only, so a planned fault
// can land on, say, the agent's pod lookup of its second collection pass
var kindSites = map[string][]string{
	"api.get.Pod":                  {"err"},
	"api.get.Node":                 {"err"},
	"api.get.NodeRuntime":          {"err"},
	"api.list.PodList":             {"err"},
	"api.status-update.Node":       {"err", "err-after", "conflict"},
	"api.status-patch.NodeRuntime": {"err"},
}

var faultSites = []string{"cloud.create", "cloud.attach", "cloud.detach", "cloud.delete", "cloud.assign4", "cloud.assign6", "cloud.unassign4", "cloud.unassign6",
	"cloud.describe", "cloud.wait", "api.status-update", "api.get", "api.list", "api.patch", "api.status-patch", "api.create", "disk.put"}

func generate(rng *rand.Rand, prop, tier string) *Scenario {
	thorough := tier == "thorough"
	sc := &Scenario{Profile: prop}
	c := &sc.Cfg
	c.Stack = pickW(rng, []string{"v4", "dual", "v6"}, []int{50, 35, 15})
	c.Adapters = 2 + rng.IntN(4)
	c.IPv4Per = 2 + rng.IntN(6)
	c.IPv6Per = c.IPv4Per
	// the node agent switches IPv6 off in multi-IP mode unless both per-adapter quotas are equal
	// (daemon.go: SupportMultiIPIPv6), so a differing IPv6 quota is reachable with an IPv4 stack only
	if rng.IntN(4) == 0 && c.Stack == "v4" {
		c.IPv6Per = 1 + rng.IntN(c.IPv4Per)
	}
	c.Trunk = c.Adapters >= 3 && rng.IntN(5) == 0
	c.ERDMA = c.Adapters >= 3 && rng.IntN(5) == 0
	capacity := (c.Adapters - 1) * c.IPv4Per
	c.MaxPool = rng.IntN(capacity + 1)
	if rng.IntN(3) == 0 {
		c.MaxPool = rng.IntN(3)
	}
	if c.MaxPool > 0 && rng.IntN(2) == 0 {
		c.MinPool = rng.IntN(c.MaxPool + 1)
	}
	c.GCPeriodS = oneOf(rng, 30, 120, 120)
	c.CacheSyncMs = oneOf(rng, 0, 0, 500, 2000, 20000, 100000)
	// the reconciler waits 1 s between passes for its cache to catch up: lags stay below that
	c.CacheLagMs = oneOf(rng, 0, 0, 100, 500)
	c.HeartbeatS = oneOf(rng, 20, 60, 60, 300)
	npre := rng.IntN(c.Adapters)
	for i := 0; i < npre; i++ {
		pe := PreENI{Type: "Secondary", V4: 1 + rng.IntN(c.IPv4Per), V6: rng.IntN(c.IPv6Per + 1)}
		if c.Stack == "dual" && rng.IntN(2) == 0 {
			pe.V6 = min(pe.V4, c.IPv6Per)
		}
		if c.Trunk && i == 0 {
			pe.Type = "Trunk"
		} else if c.ERDMA && i == 1 {
			pe.RDMA = true
		}
		pe.Foreign = rng.IntN(10) == 0
		c.PreENIs = append(c.PreENIs, pe)
	}
	c.Populated = pickW(rng, []string{"", "synced", "bound", "bound-no-uid"}, []int{40, 20, 25, 15})
	npods := 1 + rng.IntN(5)
	if thorough {
		npods = 1 + rng.IntN(10)
	}
	for i := 0; i < npods; i++ {
		ps := PodSpec{Name: fmt.Sprintf("p%d", i)}
		if c.ERDMA && rng.IntN(3) == 0 {
			ps.RDMA = true
		}
		ps.Existing = npre > 0 && rng.IntN(3) == 0
		if ps.Existing && c.Stack == "dual" && rng.IntN(3) == 0 {
			// a node switched from one family to dual stack: the pod holds one family only
			ps.Partial = oneOfS(rng, "v4", "v4", "v6")
		}
		c.Pods = append(c.Pods, ps)
	}
	sc.Strict = rng.IntN(4) == 0
	sc.LatencyMs = oneOf(rng, 0, 0, 100, 1000)
	nops := 3 + rng.IntN(8)
	if thorough {
		nops = 6 + rng.IntN(30)
	}
	kinds := []string{"up", "down", "sleep", "drift-ip", "drift-eni", "restart-daemon", "restart-ctrl", "barrier"}
	weights := []int{40, 25, 15, 3, 2, 3, 4, 5}
	if prop == "C03" {
		weights = []int{35, 35, 15, 1, 1, 5, 4, 4}
	}
	if prop == "C08" {
		weights = []int{45, 20, 18, 2, 2, 1, 4, 5}
	}
	for i := 0; i < nops; i++ {
		op := Op{Kind: pickW(rng, kinds, weights), Pod: rng.IntN(npods), Async: rng.IntN(2) == 0}
		op.DelayMs = oneOf(rng, 0, 0, 0, 100, 1000, 4000)
		switch op.Kind {
		case "up":
			op.AddDelayMs = oneOf(rng, 0, 0, 0, 500, 3000)
		case "down":
			op.Order = pickW(rng, []string{"del-obj", "obj-del", "obj-only", "del-only"}, []int{50, 25, 15, 10})
		case "sleep":
			op.SleepS = oneOf(rng, 1, 5, 30, 125, 400, 1000)
		case "drift-ip", "drift-eni":
			op.N = rng.IntN(16)
		}
		sc.Ops = append(sc.Ops, op)
	}
	if !sc.Strict {
		rate := oneOf(rng, 0.05, 0.15, 0.3)
		for _, site := range faultSites {
			if rng.IntN(2) == 0 {
				continue
			}
			for nth := 0; nth < 14; nth++ {
				if rng.Float64() < rate {
					sc.Faults = append(sc.Faults, PlannedFault{Site: site, Nth: nth, Kind: oneOf(rng, faultKinds[site]...)})
				}
			}
		}
		ks := make([]string, 0, len(kindSites))
		for k := range kindSites {
			ks = append(ks, k)
		}
		sort.Strings(ks)
		for _, site := range ks {
			if rng.IntN(3) != 0 {
				continue
			}
			for k := 0; k < 1+rng.IntN(4); k++ {
				sc.Faults = append(sc.Faults, PlannedFault{Site: site, Nth: rng.IntN(60), Kind: oneOf(rng, kindSites[site]...)})
			}
		}
	} else {
		// strict runs are the fault-free configuration: no drift, no restarts either
		ops := sc.Ops[:0]
		for _, op := range sc.Ops {
			if op.Kind != "drift-ip" && op.Kind != "drift-eni" {
				ops = append(ops, op)
			}
		}
		sc.Ops = ops
	}
	sc.SettleS = oneOf(rng, 900, 1500, 2400)
	return sc
}

func oneOfS(rng *rand.Rand, xs ...string) string { return xs[rng.IntN(len(xs))] }
