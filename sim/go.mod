module verif/sim

go 1.26

godebug randseednop=0

require github.com/AliyunContainerService/terway v0.0.0

replace github.com/AliyunContainerService/terway => /repo

replace github.com/vishvananda/netlink => github.com/BSWANG/netlink v1.0.1-0.20220803105814-1f63f9d61229
