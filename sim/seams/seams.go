// Package seams holds the seams the instrumenter substitutes into rewritten terway
// code: calls of pkg/link.GetDeviceNumber become seams.GetDeviceNumber, which asks the
// simulated kernel first and falls through to the real function (and its real error value)
// for anything the simulation does not know.
package seams

import (
	"context"
	"time"

	"github.com/AliyunContainerService/terway/pkg/link"

	"verif/sim/simrt"
)

// DeviceNumber, when set, answers for MAC addresses the simulated kernel has a device for.
var DeviceNumber func(mac string) (int32, bool)

func GetDeviceNumber(mac string) (int32, error) {
	if f := DeviceNumber; f != nil {
		if idx, ok := f(mac); ok {
			return idx, nil
		}
	}
	return link.GetDeviceNumber(mac)
}

// PollUntilContextTimeout replaces k8s.io/apimachinery/pkg/util/wait.PollUntilContextTimeout in
// rewritten code. The original selects between its ticker and the context's deadline; when the
// timeout is a multiple of the interval both are ready at the same (fake) instant and the Go
// runtime picks one at random, which no seed controls. Here the tie is a seeded choice.
func PollUntilContextTimeout(ctx context.Context, interval, timeout time.Duration, immediate bool, cond func(context.Context) (bool, error)) error {
	ctx, cancel := context.WithTimeout(ctx, timeout)
	defer cancel()
	deadline := time.Now().Add(timeout)
	if immediate {
		if ok, err := cond(ctx); err != nil || ok {
			return err
		}
	}
	for {
		next := time.Now().Add(interval)
		if next.After(deadline) || (next.Equal(deadline) && simrt.Choose(2, "poll-deadline-tie") == 0) {
			if d := time.Until(deadline); d > 0 {
				simrt.Sleep(d)
			}
			return context.DeadlineExceeded
		}
		simrt.Sleep(interval)
		if next.Before(deadline) {
			if err := ctx.Err(); err != nil {
				return err
			}
		}
		if ok, err := cond(ctx); err != nil || ok {
			return err
		}
		if !time.Now().Before(deadline) {
			return context.DeadlineExceeded
		}
	}
}
