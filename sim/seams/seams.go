// Package seams holds the kernel seam the instrumenter substitutes into rewritten terway
// code: calls of pkg/link.GetDeviceNumber become seams.GetDeviceNumber, which asks the
// simulated kernel first and falls through to the real function (and its real error value)
// for anything the simulation does not know.
package seams

import (
	"github.com/AliyunContainerService/terway/pkg/link"
)

// DeviceNumber, when set, answers for MAC addresses the simulated kernel has a device for.
var DeviceNumber func(mac string) (int32, bool)

func GetDeviceNumber(mac string) (int32, error) {
	if f := DeviceNumber; f != nil {
		if idx, ok := f(mac); ok {
			return idx, nil
		}
	}
	return link.GetDeviceNumber(mac)
}
