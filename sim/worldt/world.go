// Package worldt is World T: the real Alibaba Cloud client of terway (pkg/aliyun/client:
// options, idempotency tokens, rate limiter, in-call retries) on top of the real SDK, whose
// HTTP transport is a simulated cloud. Concurrent callers issue create/assign calls, fail,
// and retry; the oracle watches the ClientToken of every request on the wire.
package worldt

import (
	"bytes"
	"context"
	"encoding/json"
	"fmt"
	"io"
	"math/rand/v2"
	"net/http"
	"net/url"
	"sort"
	"strings"
	"testing"
	"time"

	"github.com/aliyun/alibaba-cloud-sdk-go/services/ecs"
	"github.com/aliyun/alibaba-cloud-sdk-go/services/eflo"
	"github.com/aliyun/alibaba-cloud-sdk-go/services/vpc"
	"github.com/go-logr/logr"
	"k8s.io/apimachinery/pkg/util/wait"
	logf "sigs.k8s.io/controller-runtime/pkg/log"

	"github.com/AliyunContainerService/terway/pkg/aliyun/client"

	"verif/sim/kit"
	"verif/sim/simrt"
)

func init() { logf.SetLogger(logr.Discard()) }

// Params is one parameter set of a mutation call.
type Params struct {
	Kind    string            `json:"kind"` // create | assign4 | assign6 | eflo-create
	VSwitch string            `json:"vsw,omitempty"`
	SGs     []string          `json:"sgs,omitempty"`
	Tags    map[string]string `json:"tags,omitempty"`
	IPCount int               `json:"ip,omitempty"`
	V6Count int               `json:"ip6,omitempty"`
	Trunk   bool              `json:"trunk,omitempty"`
	ERDMA   bool              `json:"erdma,omitempty"`
	ENI     string            `json:"eni,omitempty"`
	Steps   int               `json:"steps"` // in-call backoff steps
}

// Scenario is the explicit input of a run.
type Scenario struct {
	Callers     [][]int  `json:"callers"`      // per caller: indices into Params, executed in order
	Params      []Params `json:"params"`       // the pool of parameter sets (callers share them)
	Faults      []string `json:"faults"`       // outcome of the n-th request on the wire ("" = ok)
	MaxAttempts int      `json:"max_attempts"` // caller-level retries per logical operation
	StartGapMs  []int    `json:"start_gap_ms"` // per caller start delay
}

type TokenWorld struct{}

func (TokenWorld) Name() string { return "T" }
func (TokenWorld) Components() map[string][]string {
	return map[string][]string{
		"real": {"pkg/aliyun/client OpenAPI (CreateNetworkInterface, AssignPrivateIPAddress, AssignIpv6Addresses, CreateElasticNetworkInterfaceV2), options.go Finish/EFLO builders, token.go SimpleIdempotentKeyGenerator, ratelimit.go, apimachinery wait backoff",
			"alibaba-cloud-sdk-go request building, signing and response parsing"},
		"stub": {"http.RoundTripper under the SDK = simulated cloud with token idempotency (no socket)", "callers (retry loops of pkg/factory/aliyun and the controllers are modelled as 'retry with the same parameters')"},
	}
}

func (TokenWorld) Decode(raw json.RawMessage) (any, error) {
	sc := &Scenario{}
	return sc, json.Unmarshal(raw, sc)
}

func oneOf[T any](rng *rand.Rand, xs ...T) T { return xs[rng.IntN(len(xs))] }

func (TokenWorld) Generate(rng *rand.Rand, prop, tier string) any {
	sc := &Scenario{MaxAttempts: 2 + rng.IntN(3)}
	np := 1 + rng.IntN(4)
	tagKeys := []string{"creator", "cluster", "k3", "k4", "k5", "k6", "k7"}
	for i := 0; i < np; i++ {
		p := Params{Kind: oneOf(rng, "create", "create", "create", "assign4", "assign6", "eflo-create", "eflo-create"), Steps: 1 + rng.IntN(3)}
		switch p.Kind {
		case "create":
			p.VSwitch = oneOf(rng, "vsw-a", "vsw-b")
			for j, n := 0, 1+rng.IntN(3); j < n; j++ {
				p.SGs = append(p.SGs, fmt.Sprintf("sg-%d", rng.IntN(4)))
			}
			nt := rng.IntN(7)
			if nt > 0 {
				p.Tags = map[string]string{}
				for _, k := range tagKeys[:nt] {
					p.Tags[k] = fmt.Sprintf("v%d", rng.IntN(3))
				}
			}
			p.IPCount = 1 + rng.IntN(3)
			p.V6Count = rng.IntN(3)
			p.Trunk = rng.IntN(6) == 0
			p.ERDMA = rng.IntN(8) == 0
		case "assign4":
			p.ENI = oneOf(rng, "eni-x", "eni-y")
			p.IPCount = 1 + rng.IntN(3)
		case "assign6":
			p.ENI = oneOf(rng, "eni-x", "eni-y")
			p.V6Count = 1 + rng.IntN(3)
		case "eflo-create":
			p.VSwitch = oneOf(rng, "vsw-a", "vsw-b")
			p.SGs = []string{fmt.Sprintf("sg-%d", rng.IntN(2))}
			p.IPCount = 1
		}
		sc.Params = append(sc.Params, p)
	}
	nc := 1 + rng.IntN(4)
	for c := 0; c < nc; c++ {
		var ops []int
		for j, n := 0, 1+rng.IntN(4); j < n; j++ {
			ops = append(ops, rng.IntN(np))
		}
		sc.Callers = append(sc.Callers, ops)
		sc.StartGapMs = append(sc.StartGapMs, oneOf(rng, 0, 0, 0, 50, 1000))
	}
	rate := oneOf(rng, 0.0, 0.2, 0.4, 0.6)
	for i := 0; i < 60; i++ {
		f := ""
		if rng.Float64() < rate {
			f = oneOf(rng, "hard", "hard", "throttle", "internal-before", "internal-after", "internal-after", "slow", "result-code")
		}
		sc.Faults = append(sc.Faults, f)
	}
	return sc
}

func (TokenWorld) Shrink(scAny any) []any {
	sc := scAny.(*Scenario)
	clone := func() *Scenario {
		b, _ := json.Marshal(sc)
		c := &Scenario{}
		_ = json.Unmarshal(b, c)
		return c
	}
	var out []any
	for i := range sc.Callers {
		if len(sc.Callers) > 1 {
			c := clone()
			c.Callers = append(c.Callers[:i], c.Callers[i+1:]...)
			c.StartGapMs = append(c.StartGapMs[:i], c.StartGapMs[i+1:]...)
			out = append(out, c)
		}
		for j := range sc.Callers[i] {
			if len(sc.Callers[i]) > 1 {
				c := clone()
				c.Callers[i] = append(c.Callers[i][:j], c.Callers[i][j+1:]...)
				out = append(out, c)
			}
		}
	}
	for i, f := range sc.Faults {
		if f != "" {
			c := clone()
			c.Faults[i] = ""
			out = append(out, c)
		}
	}
	for i, p := range sc.Params {
		if len(p.Tags) > 2 {
			c := clone()
			ks := make([]string, 0, len(p.Tags))
			for k := range p.Tags {
				ks = append(ks, k)
			}
			sort.Strings(ks)
			delete(c.Params[i].Tags, ks[len(ks)-1])
			out = append(out, c)
		}
	}
	return out
}

// ---------------------------------------------------------------------------------------

type clientSet struct {
	e *ecs.Client
	f *eflo.Client
}

func (c *clientSet) ECS() *ecs.Client   { return c.e }
func (c *clientSet) VPC() *vpc.Client   { return nil }
func (c *clientSet) EFLO() *eflo.Client { return c.f }

// observedGen wraps the client's own token generator (an exported interface field): it adds
// no behaviour, it only records when a token was generated or handed back, so that the oracle
// can judge a call by the state of the generator at the moment the call took its token.
type observedGen struct {
	w     *world
	inner client.IdempotentKeyGen
}

type putBackEv struct {
	tok         string
	putSeq      int
	consumedSeq int
}

func (g *observedGen) GenerateKey(paramHash string) string {
	t := g.inner.GenerateKey(paramHash)
	w := g.w
	seq := w.run.S.SeqNo()
	me := w.run.S.CurrentTask().ID
	w.genSeq[me] = seq
	for _, evs := range w.putBacks {
		for _, ev := range evs {
			if ev.tok == t && ev.consumedSeq == 0 {
				ev.consumedSeq = seq
			}
		}
	}
	return t
}

func (g *observedGen) PutBack(paramHash string, tok string) {
	g.inner.PutBack(paramHash, tok)
	g.w.run.Probe("token-put-back")
}

type world struct {
	run *kit.Run
	sc  *Scenario
	api *client.OpenAPI

	wireN      int
	tokenCanon map[string]string // token -> canonical parameters it was first seen with
	tokenName  map[string]string // token -> stable name for logs
	inflight   map[string]int    // token -> requests in flight carrying it
	putBacks   map[string][]*putBackEv // canonical parameters -> tokens handed back, in order
	genSeq     map[int]int             // task id -> when its current call took its token
	effects    map[string]string // token -> resource created in the cloud
	nextRes    int
	curOp      map[int]string // task id -> logical operation
	created    map[string][]string
	resByCanon map[string]int  // canonical parameters -> resources the cloud created
	opsByCanon map[string]int  // canonical parameters -> logical requests that reached the wire
	opSeen     map[string]bool
	lastToken  map[int]string // task id -> token of the call's last wire request
	firstWire  map[int]bool   // task id -> next wire request is the first of its call
}

func (w *world) name(tok string) string {
	if n, ok := w.tokenName[tok]; ok {
		return n
	}
	n := fmt.Sprintf("T%d", len(w.tokenName)+1)
	w.tokenName[tok] = n
	return n
}

var volatile = map[string]bool{"ClientToken": true, "Timestamp": true, "SignatureNonce": true, "Signature": true, "AccessKeyId": true,
	"SignatureMethod": true, "SignatureVersion": true, "SignatureType": true, "Format": true, "Version": true, "RegionId": true}

// canonical builds the oracle's own canonical form of the request parameters: tag pairs are
// sorted, everything else keeps its wire form.
func canonical(vals url.Values) string {
	var tags []string
	var rest []string
	tagKey := map[string]string{}
	tagVal := map[string]string{}
	for k, v := range vals {
		if volatile[k] || len(v) == 0 {
			continue
		}
		if strings.HasPrefix(k, "Tag.") {
			parts := strings.Split(k, ".")
			if len(parts) == 3 {
				if parts[2] == "Key" {
					tagKey[parts[1]] = v[0]
				} else {
					tagVal[parts[1]] = v[0]
				}
				continue
			}
		}
		rest = append(rest, k+"="+v[0])
	}
	for i, k := range tagKey {
		tags = append(tags, k+"="+tagVal[i])
	}
	sort.Strings(tags)
	sort.Strings(rest)
	return strings.Join(rest, "&") + " tags[" + strings.Join(tags, ",") + "]"
}

func (w *world) RoundTrip(req *http.Request) (*http.Response, error) {
	vals := req.URL.Query()
	if req.Body != nil {
		b, _ := io.ReadAll(req.Body)
		if bv, err := url.ParseQuery(string(b)); err == nil {
			for k, v := range bv {
				vals[k] = v
			}
		}
	}
	simrt.Yield("wire")
	me := w.run.S.CurrentTask().ID
	action := vals.Get("Action")
	tok := vals.Get("ClientToken")
	canon := canonical(vals)
	n := w.wireN
	w.wireN++
	fault := ""
	if n < len(w.sc.Faults) {
		fault = w.sc.Faults[n]
	}
	w.run.S.Log("wire", "#%d %s token=%s op=%s fault=%q %s", n, action, w.name(tok), w.curOp[me], fault, canon)
	w.run.Eval()
	// (2) different parameters never share a token
	if prev, ok := w.tokenCanon[tok]; ok && prev != canon {
		w.run.Violate("C16", "token-scope", "token-shared-by-different-parameters", "token %s used for %q and for %q", w.name(tok), prev, canon)
	}
	if _, ok := w.tokenCanon[tok]; !ok {
		w.tokenCanon[tok] = canon
	}
	// (3) distinct requests in flight together never share a token
	if w.inflight[tok] > 0 {
		w.run.Violate("C16", "token-scope", "token-shared-by-concurrent-requests", "token %s carried by two requests in flight at the same time (%s)", w.name(tok), canon)
	}
	// (1) a retried call reuses the token of the failed attempt. Judged against the generator's
	// state when this call took its token: tokens handed back for the same canonical parameters
	// before that moment and not taken by anybody else yet.
	if w.firstWire[me] {
		w.firstWire[me] = false
		g := w.genSeq[me]
		var avail []string
		mine := false
		for _, ev := range w.putBacks[canon] {
			if ev.tok == tok && ev.consumedSeq == g {
				mine = true
			}
			if ev.putSeq < g && (ev.consumedSeq == 0 || ev.consumedSeq >= g) {
				avail = append(avail, w.name(ev.tok))
			}
		}
		if mine {
			w.run.Probe("token-reused")
		} else if len(avail) > 0 {
			w.run.Violate("C16", "retry-reuse", "retry-did-not-reuse-token", "a call with parameters %q took new token %s although earlier attempts with the same parameters had failed and handed back %v before it took its token", canon, w.name(tok), avail)
		}
	}
	w.lastToken[me] = tok
	if op := w.curOp[me]; !w.opSeen[op] {
		w.opSeen[op] = true
		w.opsByCanon[canon]++
	}
	w.inflight[tok]++
	defer func() { w.inflight[tok]-- }()
	lat := 20 * time.Millisecond
	if fault == "slow" {
		lat = 3 * time.Second
		w.run.Fault("wire.slow")
	}
	simrt.Sleep(lat)
	switch fault {
	case "hard":
		w.run.Fault("wire.hard-error")
		return errResp(req, "InvalidParameter.Sim"), nil
	case "throttle":
		w.run.Fault("wire.throttling")
		return errResp(req, "Throttling"), nil
	case "internal-before":
		w.run.Fault("wire.internal-error-before-effect")
		return errResp(req, "InternalError"), nil
	case "result-code":
		// EFLO style failure: HTTP 200 with a non-zero result code in the body (other APIs: plain error)
		if action == "CreateElasticNetworkInterface" {
			w.run.Fault("wire.eflo-result-code")
			body := `{"RequestId":"sim","Code":1013,"Message":"quota","Content":{}}`
			return &http.Response{StatusCode: 200, Status: "200 OK", Header: http.Header{"Content-Type": []string{"application/json"}},
				Body: io.NopCloser(bytes.NewBufferString(body)), Request: req, ProtoMajor: 1, ProtoMinor: 1}, nil
		}
		w.run.Fault("wire.hard-error")
		return errResp(req, "InvalidParameter.Sim"), nil
	}
	// effect, idempotent per token
	res, seen := w.effects[tok]
	if !seen {
		w.nextRes++
		res = fmt.Sprintf("res-%d", w.nextRes)
		w.effects[tok] = res
		w.resByCanon[canon]++
	} else {
		w.run.Probe("cloud-idempotent-hit")
	}
	if fault == "internal-after" {
		w.run.Fault("wire.internal-error-after-effect")
		return errResp(req, "InternalError"), nil
	}
	return okResp(req, action, res, vals), nil
}

func errResp(req *http.Request, code string) *http.Response {
	body := fmt.Sprintf(`{"Code":%q,"Message":"simulated","RequestId":"sim","HostId":"sim"}`, code)
	return &http.Response{StatusCode: 400, Status: "400 Bad Request", Header: http.Header{"Content-Type": []string{"application/json"}},
		Body: io.NopCloser(bytes.NewBufferString(body)), Request: req, ProtoMajor: 1, ProtoMinor: 1}
}

func okResp(req *http.Request, action, res string, vals url.Values) *http.Response {
	var body string
	switch action {
	case "CreateNetworkInterface":
		body = fmt.Sprintf(`{"RequestId":"sim","NetworkInterfaceId":%q,"MacAddress":"00:16:3e:00:00:01","Status":"Available","PrivateIpAddress":"10.0.0.9","VSwitchId":%q,"Type":"Secondary","PrivateIpSets":{"PrivateIpSet":[{"PrivateIpAddress":"10.0.0.9","Primary":true}]},"Ipv6Sets":{"Ipv6Set":[]},"SecurityGroupIds":{"SecurityGroupId":[]},"Tags":{"Tag":[]}}`, res, vals.Get("VSwitchId"))
	case "AssignPrivateIpAddresses":
		body = fmt.Sprintf(`{"RequestId":"sim","AssignedPrivateIpAddressesSet":{"NetworkInterfaceId":%q,"PrivateIpSet":{"PrivateIpAddress":["10.0.1.1"]}}}`, vals.Get("NetworkInterfaceId"))
	case "AssignIpv6Addresses":
		body = fmt.Sprintf(`{"RequestId":"sim","NetworkInterfaceId":%q,"Ipv6Sets":{"Ipv6Address":["fd00::1"]}}`, vals.Get("NetworkInterfaceId"))
	case "CreateElasticNetworkInterface":
		body = fmt.Sprintf(`{"RequestId":"sim","Code":0,"Message":"","Content":{"ElasticNetworkInterfaceId":%q,"NodeId":"n"}}`, res)
	default:
		body = `{"RequestId":"sim"}`
	}
	return &http.Response{StatusCode: 200, Status: "200 OK", Header: http.Header{"Content-Type": []string{"application/json"}},
		Body: io.NopCloser(bytes.NewBufferString(body)), Request: req, ProtoMajor: 1, ProtoMinor: 1}
}

func (w *world) call(ctx context.Context, p Params) error {
	bo := wait.Backoff{Duration: 100 * time.Millisecond, Factor: 1, Steps: p.Steps}
	nio := &client.NetworkInterfaceOptions{Trunk: p.Trunk, ERDMA: p.ERDMA, VSwitchID: p.VSwitch, SecurityGroupIDs: p.SGs,
		IPCount: p.IPCount, IPv6Count: p.V6Count, Tags: p.Tags, NetworkInterfaceID: p.ENI}
	var err error
	switch p.Kind {
	case "create":
		_, err = w.api.CreateNetworkInterface(ctx, &client.CreateNetworkInterfaceOptions{NetworkInterfaceOptions: nio, Backoff: &bo})
	case "assign4":
		_, err = w.api.AssignPrivateIPAddress(ctx, &client.AssignPrivateIPAddressOptions{NetworkInterfaceOptions: nio, Backoff: &bo})
	case "assign6":
		_, err = w.api.AssignIpv6Addresses(ctx, &client.AssignIPv6AddressesOptions{NetworkInterfaceOptions: nio, Backoff: &bo})
	case "eflo-create":
		_, err = w.api.CreateElasticNetworkInterfaceV2(ctx, &client.CreateNetworkInterfaceOptions{NetworkInterfaceOptions: nio, Backoff: &bo})
	}
	return err
}

func (w *world) main() {
	e, err := ecs.NewClientWithAccessKey("cn-hangzhou", "ak", "sk")
	if err != nil {
		w.run.Res.Infra = "ecs client: " + err.Error()
		return
	}
	e.Domain = "ecs.sim.invalid"
	e.SetTransport(w)
	f, err := eflo.NewClientWithAccessKey("cn-hangzhou", "ak", "sk")
	if err != nil {
		w.run.Res.Infra = "eflo client: " + err.Error()
		return
	}
	f.Domain = "eflo.sim.invalid"
	f.SetTransport(w)
	w.api, err = client.New(&clientSet{e: e, f: f}, nil)
	if err != nil {
		w.run.Res.Infra = "openapi: " + err.Error()
		return
	}
	w.api.IdempotentKeyGen = &observedGen{w: w, inner: w.api.IdempotentKeyGen}
	done := make(chan struct{}, len(w.sc.Callers))
	for ci, ops := range w.sc.Callers {
		ci, ops := ci, ops
		w.run.S.GoNamed(fmt.Sprintf("caller%d", ci), 0, func() {
			defer func() { done <- struct{}{} }()
			me := w.run.S.CurrentTask().ID
			if g := w.sc.StartGapMs[ci]; g > 0 {
				simrt.Sleep(time.Duration(g) * time.Millisecond)
			}
			for oi, pi := range ops {
				p := w.sc.Params[pi]
				op := fmt.Sprintf("c%d.op%d", ci, oi)
				w.curOp[me] = op
				for attempt := 0; attempt < w.sc.MaxAttempts; attempt++ {
					w.firstWire[me] = true
					w.lastToken[me] = ""
					err := w.call(context.Background(), p)
					w.run.S.Log("caller", "%s attempt %d -> %v", op, attempt, errShort(err))
					if err == nil {
						w.run.Probe("call-ok")
						break
					}
					w.run.Probe("call-failed")
					// the failed attempt's token is what a retry with these parameters must carry;
					// recorded by the harness at the moment the call returned, whatever the client did
					if tok := w.lastToken[me]; tok != "" {
						if c, ok := w.tokenCanon[tok]; ok {
							w.putBacks[c] = append(w.putBacks[c], &putBackEv{tok: tok, putSeq: w.run.S.SeqNo()})
						}
					}
					simrt.Sleep(200 * time.Millisecond)
				}
			}
		})
	}
	for range w.sc.Callers {
		simrt.Recv(done)
	}
	// (4) conservation: the cloud holds at most one resource per logical request. Requests with
	// identical parameters may legitimately swap tokens, so the count is per canonical parameter set.
	w.run.Eval()
	var canons []string
	for c := range w.resByCanon {
		canons = append(canons, c)
	}
	sort.Strings(canons)
	for _, c := range canons {
		if w.resByCanon[c] > w.opsByCanon[c] {
			w.run.Violate("C16", "duplicate", "duplicate-resource-for-one-request", "%d logical requests with parameters %q reached the cloud but it created %d resources", w.opsByCanon[c], c, w.resByCanon[c])
		}
	}
}

func errShort(err error) string {
	if err == nil {
		return "ok"
	}
	s := err.Error()
	if i := strings.Index(s, "\n"); i > 0 {
		s = s[:i]
	}
	if len(s) > 80 {
		s = s[:80]
	}
	return s
}

func (TokenWorld) Run(t *testing.T, scAny any, chooser simrt.Chooser, keepLog bool) *kit.Result {
	sc := scAny.(*Scenario)
	return kit.Execute(t, chooser, keepLog, 200_000, func(run *kit.Run) {
		w := &world{run: run, sc: sc, tokenCanon: map[string]string{}, tokenName: map[string]string{}, inflight: map[string]int{},
			putBacks: map[string][]*putBackEv{}, genSeq: map[int]int{}, effects: map[string]string{}, resByCanon: map[string]int{}, opsByCanon: map[string]int{}, opSeen: map[string]bool{}, curOp: map[int]string{}, created: map[string][]string{},
			lastToken: map[int]string{}, firstWire: map[int]bool{}}
		w.main()
	})
}
