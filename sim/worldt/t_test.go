package worldt

import (
	"testing"

	"verif/sim/kit"
)

func TestWorker(t *testing.T)      { kit.Worker(t, TokenWorld{}) }
func TestReplay(t *testing.T)      { kit.ReplayFile(t, TokenWorld{}) }
func TestDeterminism(t *testing.T) { kit.Determinism(t, TokenWorld{}) }
