package simrt

import (
	"context"
	"fmt"
	"sync"
	"testing"
	"testing/synctest"
	"time"
)

// toy system: producers/consumers with mutex, cond, select, sleep, ctx timeout, maps
func toy(s *Sim) {
	var mu sync.Mutex
	cond := sync.NewCond(&mu)
	queue := []int{}
	m := map[string]int{"a": 1, "b": 2, "c": 3, "d": 4}
	ctx, cancel := context.WithTimeout(context.Background(), 3*time.Second)
	defer cancel()
	var wg sync.WaitGroup
	res := make(chan int)
	for i := 0; i < 3; i++ {
		wg.Add(1)
		i := i
		Go(func() {
			defer wg.Done()
			for j := 0; j < 3; j++ {
				Sleep(time.Duration(100*(i+1)) * time.Millisecond)
				Lock(&mu)
				queue = append(queue, i*10+j)
				CondBroadcast(cond)
				Unlock(&mu)
			}
		})
	}
	for i := 0; i < 2; i++ {
		wg.Add(1)
		i := i
		Go(func() {
			defer wg.Done()
			for {
				Lock(&mu)
				for len(queue) == 0 {
					idx, _, _ := Select(true, RecvCase(ctx.Done()))
					if idx == 0 {
						Unlock(&mu)
						return
					}
					CondWait(cond)
				}
				v := queue[0]
				queue = queue[1:]
				Unlock(&mu)
				Log("consume", "c%d got %d", i, v)
				idx, _, _ := Select(false, RecvCase(ctx.Done()), SendCase(res, v))
				if idx == 0 {
					return
				}
			}
		})
	}
	Go(func() {
		<-ctx.Done()
		Lock(&mu)
		CondBroadcast(cond)
		Unlock(&mu)
	})
	sum := 0
	for n := 0; n < 9; n++ {
		sum += Recv(res)
	}
	for _, k := range MapKeys(m) {
		Log("map", "%s", k)
	}
	Log("sum", "%d", sum)
	WGWait(&wg)
}

func runToy(t *testing.T, seed uint64) (uint64, int, string) {
	var dig uint64
	var steps int
	var why string
	func() {
		defer func() { recover() }()
		synctest.Test(t, func(t *testing.T) {
			s := New(NewRandChooser(seed))
			s.Run(func() { toy(s) })
			dig, steps, why = s.Digest(), s.Steps, s.StopReason()
			s.Finish()
		})
	}()
	return dig, steps, why
}

func TestToyDeterministic(t *testing.T) {
	distinct := map[uint64]bool{}
	for seed := uint64(1); seed <= 200; seed++ {
		d1, s1, why := runToy(t, seed)
		d2, s2, _ := runToy(t, seed)
		if d1 != d2 || s1 != s2 {
			t.Fatalf("seed %d: nondeterministic %x/%d vs %x/%d", seed, d1, s1, d2, s2)
		}
		if why != "main returned" {
			t.Fatalf("seed %d: %s", seed, why)
		}
		distinct[d1] = true
	}
	fmt.Println("distinct digests:", len(distinct))
	if len(distinct) < 20 {
		t.Fatalf("too few distinct schedules: %d", len(distinct))
	}
}
