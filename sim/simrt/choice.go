package simrt

import (
	"fmt"
	"math/rand/v2"
)

// RandChooser draws every decision from one PCG stream and can record the trace.
type RandChooser struct {
	r      *rand.Rand
	Record bool
	Trace  []int32
	Draws  int
}

// NewRandChooser seeds the stream.
func NewRandChooser(seed uint64) *RandChooser {
	return &RandChooser{r: rand.New(rand.NewPCG(seed, seed^0x9e3779b97f4a7c15))}
}

func (c *RandChooser) Intn(n int, tag string) int {
	v := c.r.IntN(n)
	c.Draws++
	if c.Record {
		c.Trace = append(c.Trace, int32(v))
	}
	return v
}

// ReplayChooser replays a recorded trace. Values out of range are reduced modulo n and an
// exhausted trace yields 0, which is what trace minimisation relies on; Strict mode treats
// both as divergence.
type ReplayChooser struct {
	Vals     []int32
	pos      int
	Strict   bool
	Diverged string
	Record   bool
	Trace    []int32
}

func (c *ReplayChooser) Intn(n int, tag string) int {
	v := 0
	if c.pos < len(c.Vals) {
		v = int(c.Vals[c.pos])
		if v >= n || v < 0 {
			if c.Strict && c.Diverged == "" {
				c.Diverged = fmt.Sprintf("choice %d (%s): recorded %d, bound %d", c.pos, tag, v, n)
			}
			v = ((v % n) + n) % n
		}
	} else if c.Strict && c.Diverged == "" {
		c.Diverged = fmt.Sprintf("trace exhausted at choice %d (%s)", c.pos, tag)
	}
	c.pos++
	if c.Record {
		c.Trace = append(c.Trace, int32(v))
	}
	return v
}

// Used reports how many choices were consumed.
func (c *ReplayChooser) Used() int { return c.pos }

// PrefixChooser replays a recorded prefix and continues with a fresh random stream; it is
// how a run is re-executed identically up to an injected crash point and then explored on.
type PrefixChooser struct {
	Prefix []int32
	pos    int
	Rand   *RandChooser
	Trace  []int32
}

func (c *PrefixChooser) Intn(n int, tag string) int {
	var v int
	if c.pos < len(c.Prefix) {
		v = int(c.Prefix[c.pos])
		if v >= n || v < 0 {
			v = ((v % n) + n) % n
		}
	} else {
		v = c.Rand.Intn(n, tag)
	}
	c.pos++
	c.Trace = append(c.Trace, int32(v))
	return v
}
