// Package simrt is the deterministic-simulation runtime that instrumented terway code
// (and the hand-written harnesses) call instead of Go's synchronisation primitives.
//
// One run token exists per simulation. A task executes instrumented code only while it
// holds the token; at every rewritten operation it hands the token back and parks. The
// scheduler (Sim.Run, executing in the root goroutine of a testing/synctest bubble) waits
// until every goroutine of the bubble is durably blocked (synctest.Wait), collects the
// parked tasks in task-id order and lets the choice source pick the next one. When no task
// is runnable the scheduler itself blocks, which lets the bubble's fake clock jump to the
// next timer.
//
// Outside a running simulation (active == nil) every entry point falls through to the real
// primitive, so instrumented code still works under ordinary `go test`.
package simrt

import (
	"fmt"
	"hash/fnv"
	"reflect"
	"runtime"
	"sort"
	"strings"
	"sync"
	"sync/atomic"
	"testing/synctest"
	"time"
)

// Chooser is the single source of every decision taken during a run.
type Chooser interface {
	Intn(n int, tag string) int
}

type state int

const (
	stParked  state = iota // waiting for the token, runnable
	stRunning              // holds the token
	stBlocked              // waiting for a modelled event (mutex, cond, once)
	stOutside              // inside a real blocking operation (or blocked in un-instrumented code)
	stDone
)

func (s state) String() string {
	return [...]string{"parked", "running", "blocked", "outside", "done"}[s]
}

// Task is one schedulable thread of control.
type Task struct {
	ID     int
	Name   string
	Gen    int // generation: a simulated process crash kills a whole generation
	Parent int // id of the task that spawned it (-1: none)
	state  state
	wake   chan struct{}
	goid   uint64
	dead   bool
	on     string // what it is blocked on (debug)
	steps  int
}

type lockModel struct {
	owner    *Task
	readers  int
	rholders map[*Task]int
	waitW    int
	waiters  []lockWaiter
}

type lockWaiter struct {
	t     *Task
	write bool
}

type condModel struct {
	waiters []*Task
}

type onceModel struct {
	done    bool
	running bool
	waiters []*Task
}

// Event is one line of the event log.
type Event struct {
	Seq  int
	At   time.Duration // fake time since start of the run
	Task int
	Site string
	Msg  string
}

// Sim is one simulated execution.
type Sim struct {
	mu       sync.Mutex
	tasks    []*Task
	byGoid   map[uint64]*Task
	cur      *Task
	sched    chan struct{}
	chooser  Chooser
	locks    map[uintptr]*lockModel
	conds    map[uintptr]*condModel
	onces    map[uintptr]*onceModel
	finished bool
	stopWhy  string
	start    time.Time

	Seq       int // global sequence number: one per scheduling decision or logged event
	Steps     int
	MaxSteps  int
	Untracked int
	KeepLog   bool
	Events    []Event
	digest    uint64
	sigDigest uint64 // schedule signature: (task name, site) of every scheduling decision

	Panic      any
	PanicStack string
	PanicTask  string

	// StepHook, if set, runs in the scheduler goroutine before each scheduling decision
	// while every other goroutine of the bubble is durably blocked.
	StepHook func()
}

var active atomic.Pointer[Sim]

// Active returns the running simulation or nil.
func Active() *Sim { return active.Load() }

// New creates a simulation. It must be called inside a synctest bubble.
func New(ch Chooser) *Sim {
	s := &Sim{
		byGoid:   map[uint64]*Task{},
		sched:    make(chan struct{}, 1),
		chooser:  ch,
		locks:    map[uintptr]*lockModel{},
		conds:    map[uintptr]*condModel{},
		onces:    map[uintptr]*onceModel{},
		start:    time.Now(),
		MaxSteps: 2_000_000,
		digest:   14695981039346656037,
	}
	return s
}

func goid() uint64 {
	var buf [64]byte
	n := runtime.Stack(buf[:], false)
	// "goroutine 123 ["
	var id uint64
	for i := 10; i < n; i++ {
		c := buf[i]
		if c < '0' || c > '9' {
			break
		}
		id = id*10 + uint64(c-'0')
	}
	return id
}

func blockForever() {
	select {}
}

func (s *Sim) notify() {
	select {
	case s.sched <- struct{}{}:
	default:
	}
}

// Stop ends the run: the scheduler returns at its next iteration and every task that
// reaches simrt afterwards blocks for ever.
func (s *Sim) Stop(why string) {
	s.mu.Lock()
	if !s.finished {
		s.finished = true
		s.stopWhy = why
	}
	s.mu.Unlock()
	s.notify()
}

// StopReason tells why the scheduler returned.
func (s *Sim) StopReason() string { return s.stopWhy }

// Now is the fake time elapsed since the start of the run.
func (s *Sim) Now() time.Duration { return time.Since(s.start) }

func (s *Sim) mix(h *uint64, str string) {
	x := *h
	for i := 0; i < len(str); i++ {
		x ^= uint64(str[i])
		x *= 1099511628211
	}
	x ^= 0xff
	x *= 1099511628211
	*h = x
}

// Digest is a running hash of the event log (including scheduling decisions).
func (s *Sim) Digest() uint64 { return s.digest }

// Signature is a hash of the sequence of (task class, site) scheduling decisions.
func (s *Sim) Signature() uint64 { return s.sigDigest }

// Log appends to the event log. Only token holders and seam stubs may call it.
func (s *Sim) Log(site string, format string, args ...any) {
	msg := format
	if len(args) > 0 {
		msg = fmt.Sprintf(format, args...)
	}
	s.mu.Lock()
	s.logLocked(site, msg)
	s.mu.Unlock()
}

func (s *Sim) logLocked(site, msg string) {
	s.Seq++
	tid := -1
	if s.cur != nil {
		tid = s.cur.ID
	}
	s.mix(&s.digest, site)
	s.mix(&s.digest, msg)
	if s.KeepLog {
		s.Events = append(s.Events, Event{Seq: s.Seq, At: time.Since(s.start), Task: tid, Site: site, Msg: msg})
	}
}

// Log is the package-level form; a no-op outside a simulation.
func Log(site string, format string, args ...any) {
	if s := active.Load(); s != nil {
		s.Log(site, format, args...)
	}
}

// SeqNo returns the current global sequence number.
func (s *Sim) SeqNo() int {
	s.mu.Lock()
	defer s.mu.Unlock()
	return s.Seq
}

// Choose draws a decision in [0,n). Only token holders may call it.
func (s *Sim) Choose(n int, tag string) int {
	if n <= 1 {
		return 0
	}
	return s.chooser.Intn(n, tag)
}

// Choose is the package-level form (0 outside a simulation).
func Choose(n int, tag string) int {
	if s := active.Load(); s != nil {
		return s.Choose(n, tag)
	}
	return 0
}

// ---------------------------------------------------------------------------------------
// task bookkeeping

func (s *Sim) newTaskLocked(name string, gen int) *Task {
	t := &Task{ID: len(s.tasks), Name: name, Gen: gen, Parent: -1, state: stParked, wake: make(chan struct{}, 1)}
	s.tasks = append(s.tasks, t)
	return t
}

// enter identifies the calling goroutine and makes sure it holds the token.
func (s *Sim) enter(site string) *Task {
	g := goid()
	s.mu.Lock()
	if s.finished {
		s.mu.Unlock()
		blockForever()
	}
	t := s.byGoid[g]
	if t == nil {
		// goroutine spawned by un-instrumented code
		t = s.newTaskLocked("untracked", 0)
		t.goid = g
		s.byGoid[g] = t
		s.Untracked++
		t.on = site
		s.mu.Unlock()
		s.notify()
		s.waitToken(t)
		return t
	}
	if t.dead {
		s.mu.Unlock()
		blockForever()
	}
	if s.cur == t {
		s.mu.Unlock()
		return t
	}
	// woke up from a real blocking operation in un-instrumented code
	// (or the scheduler took the token back while it was blocked there)
	t.state = stParked
	t.on = site
	s.mu.Unlock()
	s.notify()
	s.waitToken(t)
	return t
}

func (s *Sim) waitToken(t *Task) {
	<-t.wake
	if t.dead || s.finished {
		blockForever()
	}
}

// park gives up the token with the given state and waits to be scheduled again.
func (s *Sim) park(t *Task, st state, on string) {
	s.mu.Lock()
	t.state = st
	t.on = on
	if s.cur == t {
		s.cur = nil
	}
	s.mu.Unlock()
	s.notify()
	s.waitToken(t)
}

// Yield is a pure scheduling point.
func (s *Sim) Yield(site string) {
	t := s.enter(site)
	s.park(t, stParked, site)
}

// Yield is the package-level form; a no-op outside a simulation.
func Yield(site string) {
	if s := active.Load(); s != nil {
		s.Yield(site)
	}
}

// CurrentTask returns the calling task (token holder).
func (s *Sim) CurrentTask() *Task { return s.enter("current") }

// Ancestors returns the ids of the calling task and of the tasks that (transitively) spawned it.
func (s *Sim) Ancestors() []int {
	t := s.enter("current")
	s.mu.Lock()
	defer s.mu.Unlock()
	var out []int
	for t != nil {
		out = append(out, t.ID)
		if t.Parent < 0 || t.Parent >= len(s.tasks) {
			break
		}
		t = s.tasks[t.Parent]
	}
	return out
}

// Go spawns a task. Outside a simulation it is the go statement.
func Go(fn func()) {
	s := active.Load()
	if s == nil {
		go fn()
		return
	}
	s.GoNamed(callerName(2), -1, fn)
}

func callerName(skip int) string {
	pc, _, line, ok := runtime.Caller(skip)
	if !ok {
		return "?"
	}
	f := runtime.FuncForPC(pc)
	n := "?"
	if f != nil {
		n = f.Name()
		if i := strings.LastIndex(n, "/"); i >= 0 {
			n = n[i+1:]
		}
	}
	return fmt.Sprintf("%s:%d", n, line)
}

// GoNamed spawns a named task in generation gen (gen < 0: inherit the spawner's).
func (s *Sim) GoNamed(name string, gen int, fn func()) *Task {
	me := s.enter("go")
	s.mu.Lock()
	if gen < 0 {
		gen = me.Gen
	}
	t := s.newTaskLocked(name, gen)
	t.Parent = me.ID
	s.mu.Unlock()
	s.startTask(t, fn)
	return t
}

func (s *Sim) startTask(t *Task, fn func()) {
	go func() {
		g := goid()
		s.mu.Lock()
		t.goid = g
		s.byGoid[g] = t
		s.mu.Unlock()
		s.waitToken(t)
		defer s.exitTask(t)
		fn()
	}()
}

func (s *Sim) exitTask(t *Task) {
	if r := recover(); r != nil {
		buf := make([]byte, 16<<10)
		n := runtime.Stack(buf, false)
		s.mu.Lock()
		if s.Panic == nil {
			s.Panic = r
			s.PanicStack = string(buf[:n])
			s.PanicTask = t.Name
		}
		s.finished = true
		s.stopWhy = "panic"
		s.mu.Unlock()
	}
	s.mu.Lock()
	t.state = stDone
	delete(s.byGoid, t.goid)
	if s.cur == t {
		s.cur = nil
	}
	s.mu.Unlock()
	s.notify()
}

// Kill marks every task of generation gen dead (simulated process crash). Dead tasks are
// never scheduled again; modelled locks they hold are dropped with them (the objects they
// protect belong to the dead process). If the caller itself is of that generation it blocks
// for ever.
func (s *Sim) Kill(gen int) {
	g := goid()
	s.mu.Lock()
	var self *Task
	for _, t := range s.tasks {
		if t.Gen == gen && t.state != stDone {
			t.dead = true
			if t.goid == g {
				self = t
			}
		}
	}
	for _, l := range s.locks {
		if l.owner != nil && l.owner.dead {
			l.owner = nil
		}
		for h := range l.rholders {
			if h.dead {
				l.readers -= l.rholders[h]
				delete(l.rholders, h)
			}
		}
		live := l.waiters[:0]
		for _, w := range l.waiters {
			if w.t.dead {
				if w.write {
					l.waitW--
				}
				continue
			}
			// a lock held by the dead process may have become free
			if w.t.state == stBlocked {
				w.t.state = stParked
			}
			live = append(live, w)
		}
		l.waiters = live
	}
	if self != nil && s.cur == self {
		s.cur = nil
	}
	s.logLocked("kill", fmt.Sprintf("gen=%d", gen))
	s.mu.Unlock()
	s.notify()
	if self != nil {
		blockForever()
	}
}

// Run drives the simulation until main returns or Stop is called. It must run in the
// bubble's root function.
func (s *Sim) Run(main func()) {
	active.Store(s)
	s.mu.Lock()
	t0 := s.newTaskLocked("main", 0)
	s.mu.Unlock()
	s.startTask(t0, func() {
		main()
		s.Stop("main returned")
	})
	var runnable []*Task
	for {
		synctest.Wait()
		select {
		case <-s.sched:
		default:
		}
		s.mu.Lock()
		if s.cur != nil {
			// the token holder is durably blocked in un-instrumented code
			s.cur.state = stOutside
			s.cur = nil
		}
		if s.finished {
			s.mu.Unlock()
			return
		}
		if s.Steps >= s.MaxSteps {
			s.finished = true
			s.stopWhy = "step limit"
			s.mu.Unlock()
			return
		}
		runnable = runnable[:0]
		for _, t := range s.tasks {
			if t.state == stParked && !t.dead {
				runnable = append(runnable, t)
			}
		}
		if len(runnable) == 0 {
			s.mu.Unlock()
			// nothing to run: let the fake clock advance (or the bubble deadlock)
			<-s.sched
			continue
		}
		s.mu.Unlock()
		if s.StepHook != nil {
			s.StepHook()
		}
		i := 0
		if len(runnable) > 1 {
			i = s.chooser.Intn(len(runnable), "sched")
		}
		t := runnable[i]
		s.mu.Lock()
		s.Steps++
		s.Seq++
		t.steps++
		t.state = stRunning
		s.cur = t
		s.mix(&s.digest, t.Name)
		s.mix(&s.digest, t.on)
		s.mix(&s.sigDigest, t.Name)
		s.mix(&s.sigDigest, t.on)
		if s.KeepLog {
			s.Events = append(s.Events, Event{Seq: s.Seq, At: time.Since(s.start), Task: t.ID, Site: "sched", Msg: t.Name + " @" + t.on})
		}
		s.mu.Unlock()
		t.wake <- struct{}{}
	}
}

// Finish detaches the simulation from the process (call after the bubble has ended).
func (s *Sim) Finish() {
	active.CompareAndSwap(s, nil)
}

// Dump describes every live task (for deadlock reports).
func (s *Sim) Dump() string {
	s.mu.Lock()
	defer s.mu.Unlock()
	var b strings.Builder
	for _, t := range s.tasks {
		if t.state == stDone {
			continue
		}
		fmt.Fprintf(&b, "task %d %s gen=%d %s dead=%v on=%s\n", t.ID, t.Name, t.Gen, t.state, t.dead, t.on)
	}
	return b.String()
}

// LiveBlocked reports the tasks (not dead, not done) that wait on a modelled event.
func (s *Sim) LiveBlocked() []string {
	s.mu.Lock()
	defer s.mu.Unlock()
	var out []string
	for _, t := range s.tasks {
		if t.state == stBlocked && !t.dead {
			out = append(out, fmt.Sprintf("%s on %s", t.Name, t.on))
		}
	}
	return out
}

// ---------------------------------------------------------------------------------------
// real blocking operations

// Handle identifies a task between BeginBlock and EndBlock.
type Handle struct {
	s *Sim
	t *Task
}

// BeginBlock gives up the token before a real, durably blocking operation.
func BeginBlock(site string) Handle {
	s := active.Load()
	if s == nil {
		return Handle{}
	}
	t := s.enter(site)
	s.mu.Lock()
	t.state = stOutside
	t.on = site
	if s.cur == t {
		s.cur = nil
	}
	s.mu.Unlock()
	s.notify()
	return Handle{s, t}
}

// EndBlock parks the task again after the real operation returned.
func EndBlock(h Handle) {
	if h.s == nil {
		return
	}
	s, t := h.s, h.t
	s.mu.Lock()
	if s.finished || t.dead {
		s.mu.Unlock()
		blockForever()
	}
	t.state = stParked
	s.mu.Unlock()
	s.notify()
	s.waitToken(t)
}

// Block runs a real blocking statement (a channel send, typically) outside the token.
func Block(site string, f func()) {
	h := BeginBlock(site)
	f()
	EndBlock(h)
}

// Sleep is time.Sleep on the bubble's fake clock.
func Sleep(d time.Duration) {
	h := BeginBlock("sleep")
	time.Sleep(d)
	EndBlock(h)
}

// WGWait is (*sync.WaitGroup).Wait.
func WGWait(wg *sync.WaitGroup) {
	h := BeginBlock("wg.Wait")
	wg.Wait()
	EndBlock(h)
}

// Recv is <-ch.
func Recv[T any](ch <-chan T) T {
	h := BeginBlock("recv")
	v := <-ch
	EndBlock(h)
	return v
}

// Recv2 is v, ok := <-ch.
func Recv2[T any](ch <-chan T) (T, bool) {
	h := BeginBlock("recv")
	v, ok := <-ch
	EndBlock(h)
	return v, ok
}

// ---------------------------------------------------------------------------------------
// select

// Case is one communication clause of a rewritten select statement.
type Case struct {
	c reflect.SelectCase
}

// RecvCase builds a receive clause.
func RecvCase(ch any) Case {
	return Case{reflect.SelectCase{Dir: reflect.SelectRecv, Chan: reflect.ValueOf(ch)}}
}

// SendCase builds a send clause.
func SendCase(ch any, v any) Case {
	cv := reflect.ValueOf(ch)
	var sv reflect.Value
	if cv.IsValid() && cv.Kind() == reflect.Chan {
		if v == nil {
			sv = reflect.Zero(cv.Type().Elem())
		} else {
			sv = reflect.ValueOf(v)
		}
	}
	return Case{reflect.SelectCase{Dir: reflect.SelectSend, Chan: cv, Send: sv}}
}

// RecvVal gives the received value its static type (inferred from the channel operand).
func RecvVal[T any](_ <-chan T, v reflect.Value) T {
	var zero T
	if !v.IsValid() {
		return zero
	}
	if x, ok := v.Interface().(T); ok {
		return x
	}
	return zero
}

func usable(c reflect.SelectCase) bool {
	return c.Chan.IsValid() && c.Chan.Kind() == reflect.Chan && !c.Chan.IsNil()
}

// Select executes a rewritten select statement. It returns the index of the chosen clause
// (-1 for default), the received value and the ok flag.
func Select(hasDefault bool, cases ...Case) (int, reflect.Value, bool) {
	rc := make([]reflect.SelectCase, len(cases), len(cases)+1)
	for i, c := range cases {
		rc[i] = c.c
		if !usable(c.c) {
			// nil channel: never ready
			rc[i] = reflect.SelectCase{Dir: reflect.SelectRecv}
		}
	}
	s := active.Load()
	if s == nil {
		if hasDefault {
			rc = append(rc, reflect.SelectCase{Dir: reflect.SelectDefault})
		}
		i, v, ok := reflect.Select(rc)
		if hasDefault && i == len(cases) {
			return -1, reflect.Value{}, false
		}
		return i, v, ok
	}
	s.Yield("select")
	n := len(rc)
	start := 0
	if n > 1 {
		start = s.Choose(n, "select")
	}
	for k := 0; k < n; k++ {
		i := (start + k) % n
		if !rc[i].Chan.IsValid() {
			continue
		}
		j, v, ok := reflect.Select([]reflect.SelectCase{rc[i], {Dir: reflect.SelectDefault}})
		if j == 0 {
			return i, v, ok
		}
	}
	if hasDefault {
		return -1, reflect.Value{}, false
	}
	h := BeginBlock("select")
	i, v, ok := reflect.Select(rc)
	EndBlock(h)
	return i, v, ok
}

// ---------------------------------------------------------------------------------------
// mutexes

func lockKey(l any) (uintptr, sync.Locker, *sync.RWMutex) {
	switch x := l.(type) {
	case *sync.Mutex:
		return reflect.ValueOf(x).Pointer(), x, nil
	case *sync.RWMutex:
		return reflect.ValueOf(x).Pointer(), x, x
	case sync.Locker:
		v := reflect.ValueOf(x)
		if v.Kind() == reflect.Pointer {
			return v.Pointer(), x, nil
		}
		panic(fmt.Sprintf("simrt: unsupported locker %T", l))
	default:
		panic(fmt.Sprintf("simrt: unsupported lock operand %T", l))
	}
}

func (s *Sim) lockModel(k uintptr) *lockModel {
	m := s.locks[k]
	if m == nil {
		m = &lockModel{rholders: map[*Task]int{}}
		s.locks[k] = m
	}
	return m
}

func (s *Sim) acquire(t *Task, k uintptr, write bool, what string) {
	for {
		s.mu.Lock()
		m := s.lockModel(k)
		if write {
			if m.owner == nil && m.readers == 0 {
				m.owner = t
				s.mu.Unlock()
				return
			}
			m.waitW++
		} else {
			if m.owner == nil && m.waitW == 0 {
				m.readers++
				m.rholders[t]++
				s.mu.Unlock()
				return
			}
		}
		m.waiters = append(m.waiters, lockWaiter{t, write})
		t.state = stBlocked
		t.on = what
		if s.cur == t {
			s.cur = nil
		}
		s.mu.Unlock()
		s.notify()
		s.waitToken(t)
		if write {
			s.mu.Lock()
			m.waitW--
			s.mu.Unlock()
		}
	}
}

func (s *Sim) release(t *Task, k uintptr, write bool) {
	s.mu.Lock()
	m := s.lockModel(k)
	if write {
		m.owner = nil
	} else {
		m.readers--
		if m.rholders[t] > 1 {
			m.rholders[t]--
		} else if _, ok := m.rholders[t]; ok {
			delete(m.rholders, t)
		} else {
			// RUnlock by a task other than the RLock-er is legal Go; drop any holder
			for h := range m.rholders {
				if m.rholders[h] > 1 {
					m.rholders[h]--
				} else {
					delete(m.rholders, h)
				}
				break
			}
		}
	}
	ws := m.waiters
	m.waiters = nil
	for _, w := range ws {
		if w.t.state == stBlocked {
			w.t.state = stParked
		}
	}
	s.mu.Unlock()
}

// Lock is l.Lock() for *sync.Mutex, *sync.RWMutex and sync.Locker operands.
func Lock(l any) {
	s := active.Load()
	if s == nil {
		l.(sync.Locker).Lock()
		return
	}
	k, _, _ := lockKey(l)
	t := s.enter("lock")
	s.park(t, stParked, "lock")
	s.acquire(t, k, true, "mutex")
}

// Unlock is l.Unlock().
func Unlock(l any) {
	s := active.Load()
	if s == nil {
		l.(sync.Locker).Unlock()
		return
	}
	k, _, _ := lockKey(l)
	t := s.enter("unlock")
	s.release(t, k, true)
}

// RLock is l.RLock().
func RLock(l *sync.RWMutex) {
	s := active.Load()
	if s == nil {
		l.RLock()
		return
	}
	k, _, _ := lockKey(l)
	t := s.enter("rlock")
	s.park(t, stParked, "rlock")
	s.acquire(t, k, false, "rwmutex(r)")
}

// RUnlock is l.RUnlock().
func RUnlock(l *sync.RWMutex) {
	s := active.Load()
	if s == nil {
		l.RUnlock()
		return
	}
	k, _, _ := lockKey(l)
	t := s.enter("runlock")
	s.release(t, k, false)
}

// TryLock is l.TryLock() for *sync.Mutex / *sync.RWMutex.
func TryLock(l any) bool {
	s := active.Load()
	if s == nil {
		switch x := l.(type) {
		case *sync.Mutex:
			return x.TryLock()
		case *sync.RWMutex:
			return x.TryLock()
		}
		panic("simrt: TryLock operand")
	}
	k, _, _ := lockKey(l)
	t := s.enter("trylock")
	s.park(t, stParked, "trylock")
	s.mu.Lock()
	defer s.mu.Unlock()
	m := s.lockModel(k)
	if m.owner == nil && m.readers == 0 {
		m.owner = t
		return true
	}
	return false
}

// ---------------------------------------------------------------------------------------
// condition variables

func (s *Sim) condModel(c *sync.Cond) *condModel {
	k := reflect.ValueOf(c).Pointer()
	m := s.conds[k]
	if m == nil {
		m = &condModel{}
		s.conds[k] = m
	}
	return m
}

// CondWait is c.Wait().
func CondWait(c *sync.Cond) {
	s := active.Load()
	if s == nil {
		c.Wait()
		return
	}
	k, _, _ := lockKey(c.L)
	t := s.enter("cond.Wait")
	s.mu.Lock()
	cm := s.condModel(c)
	cm.waiters = append(cm.waiters, t)
	s.mu.Unlock()
	s.release(t, k, true)
	s.park(t, stBlocked, "cond")
	s.acquire(t, k, true, "mutex(cond)")
}

// CondSignal is c.Signal().
func CondSignal(c *sync.Cond) {
	s := active.Load()
	if s == nil {
		c.Signal()
		return
	}
	s.enter("cond.Signal")
	s.mu.Lock()
	cm := s.condModel(c)
	live := cm.waiters[:0]
	for _, w := range cm.waiters {
		if !w.dead {
			live = append(live, w)
		}
	}
	cm.waiters = live
	n := len(cm.waiters)
	s.mu.Unlock()
	if n == 0 {
		return
	}
	i := s.Choose(n, "signal")
	s.mu.Lock()
	w := cm.waiters[i]
	cm.waiters = append(cm.waiters[:i], cm.waiters[i+1:]...)
	if w.state == stBlocked {
		w.state = stParked
	}
	s.mu.Unlock()
}

// CondBroadcast is c.Broadcast().
func CondBroadcast(c *sync.Cond) {
	s := active.Load()
	if s == nil {
		c.Broadcast()
		return
	}
	s.enter("cond.Broadcast")
	s.mu.Lock()
	cm := s.condModel(c)
	for _, w := range cm.waiters {
		if w.state == stBlocked {
			w.state = stParked
		}
	}
	cm.waiters = nil
	s.mu.Unlock()
}

// ---------------------------------------------------------------------------------------
// once

// OnceDo is o.Do(f).
func OnceDo(o *sync.Once, f func()) {
	s := active.Load()
	if s == nil {
		o.Do(f)
		return
	}
	k := reflect.ValueOf(o).Pointer()
	t := s.enter("once")
	for {
		s.mu.Lock()
		m := s.onces[k]
		if m == nil {
			m = &onceModel{}
			s.onces[k] = m
		}
		if m.done {
			s.mu.Unlock()
			return
		}
		if !m.running {
			m.running = true
			s.mu.Unlock()
			defer func() {
				s.mu.Lock()
				m.done = true
				m.running = false
				for _, w := range m.waiters {
					if w.state == stBlocked {
						w.state = stParked
					}
				}
				m.waiters = nil
				s.mu.Unlock()
			}()
			f()
			return
		}
		m.waiters = append(m.waiters, t)
		t.state = stBlocked
		t.on = "once"
		if s.cur == t {
			s.cur = nil
		}
		s.mu.Unlock()
		s.notify()
		s.waitToken(t)
	}
}

// ---------------------------------------------------------------------------------------
// map iteration

// MapKeys returns the keys of m: in Go's own (random) order outside a simulation, in a
// canonical order permuted by the choice source inside one.
func MapKeys[M ~map[K]V, K comparable, V any](m M) []K {
	keys := make([]K, 0, len(m))
	for k := range m {
		keys = append(keys, k)
	}
	s := active.Load()
	if s == nil || len(keys) < 2 {
		return keys
	}
	sortKeys(keys)
	s.enter("map")
	for i := len(keys) - 1; i > 0; i-- {
		j := s.Choose(i+1, "map")
		keys[i], keys[j] = keys[j], keys[i]
	}
	return keys
}

func sortKeys[K comparable](keys []K) {
	if len(keys) == 0 {
		return
	}
	switch any(keys[0]).(type) {
	case string:
		sort.Slice(keys, func(i, j int) bool { return any(keys[i]).(string) < any(keys[j]).(string) })
		return
	case int:
		sort.Slice(keys, func(i, j int) bool { return any(keys[i]).(int) < any(keys[j]).(int) })
		return
	}
	strs := make([]string, len(keys))
	for i, k := range keys {
		strs[i] = canon(reflect.ValueOf(k))
	}
	idx := make([]int, len(keys))
	for i := range idx {
		idx[i] = i
	}
	sort.SliceStable(idx, func(a, b int) bool { return strs[idx[a]] < strs[idx[b]] })
	out := make([]K, len(keys))
	for i, j := range idx {
		out[i] = keys[j]
	}
	copy(keys, out)
}

func canon(v reflect.Value) string {
	switch v.Kind() {
	case reflect.String:
		return "s" + v.String()
	case reflect.Int, reflect.Int8, reflect.Int16, reflect.Int32, reflect.Int64:
		return fmt.Sprintf("i%020d", v.Int()+(1<<62))
	case reflect.Uint, reflect.Uint8, reflect.Uint16, reflect.Uint32, reflect.Uint64, reflect.Uintptr:
		return fmt.Sprintf("u%020d", v.Uint())
	case reflect.Pointer, reflect.Chan, reflect.UnsafePointer, reflect.Func:
		panic("simrt.MapKeys: key with pointer identity cannot be ordered deterministically: " + v.Type().String())
	}
	if v.CanInterface() {
		if s, ok := v.Interface().(fmt.Stringer); ok {
			return "S" + s.String()
		}
	}
	return "v" + fmt.Sprintf("%#v", v)
}

// HashString is a small helper for harnesses.
func HashString(s string) uint64 {
	h := fnv.New64a()
	h.Write([]byte(s))
	return h.Sum64()
}

// LoValues is lo.Values with seeded order.
func LoValues[K comparable, V any](m map[K]V) []V {
	keys := MapKeys(m)
	out := make([]V, 0, len(keys))
	for _, k := range keys {
		out = append(out, m[k])
	}
	return out
}

// LoKeys is lo.Keys with seeded order.
func LoKeys[K comparable, V any](m map[K]V) []K {
	return MapKeys(m)
}
