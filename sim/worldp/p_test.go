package worldp

import (
	"testing"

	"verif/sim/kit"
)

func TestWorker(t *testing.T)      { kit.Worker(t, PodWorld{}) }
func TestReplay(t *testing.T)      { kit.ReplayFile(t, PodWorld{}) }
func TestDeterminism(t *testing.T) { kit.Determinism(t, PodWorld{}) }

// TestDiverge is a debugging aid: VERIF_DIVERGE=<run index> runs that run twice with logs and
// prints the first event at which the two logs differ.
func TestDiverge(t *testing.T) { kit.Diverge(t, PodWorld{}) }
