package worldp

import (
	"context"
	"fmt"
	"sort"
	"time"

	corev1 "k8s.io/api/core/v1"
	metav1 "k8s.io/apimachinery/pkg/apis/meta/v1"
	"k8s.io/apimachinery/pkg/runtime"
	"sigs.k8s.io/controller-runtime/pkg/client"

	aliyunClient "github.com/AliyunContainerService/terway/pkg/aliyun/client"
	"github.com/AliyunContainerService/terway/pkg/apis/network.alibabacloud.com/v1beta1"
	podctl "github.com/AliyunContainerService/terway/pkg/controller/pod"
	podeni "github.com/AliyunContainerService/terway/pkg/controller/pod-eni"
	"github.com/AliyunContainerService/terway/pkg/eni"
	"github.com/AliyunContainerService/terway/types"
	"github.com/AliyunContainerService/terway/types/controlplane"
	"github.com/AliyunContainerService/terway/types/daemon"

	"verif/sim/kit"
	"verif/sim/simrt"
)

func sortedKeys[V any](m map[string]V) []string {
	ks := make([]string, 0, len(m))
	for k := range m {
		ks = append(ks, k)
	}
	sort.Strings(ks)
	return ks
}

func (w *World) main() {
	sc := w.sc
	for _, f := range sc.Faults {
		w.faultPlan[fmt.Sprintf("%s#%d", f.Site, f.Nth)] = f.Kind
	}
	trunk := w.cfg.Trunk
	stack := "ipv4"
	if w.cfg.Stack == "dual" {
		stack = "dual"
	}
	controlplane.SetConfig(&controlplane.Config{ClusterID: clusterID, VPCID: "vpc-1", RegionID: "cn-sim", IPStack: stack, EnableTrunk: &trunk, PodMaxConcurrent: 10, PodENIMaxConcurrent: 10})

	w.cloud = newCloud(w)
	start := time.Now()
	var objs []client.Object
	trunkIDs := map[string]string{}
	for _, n := range nodeNames {
		id := ""
		if trunk {
			t := w.cloud.newENI(aliyunClient.ENITypeTrunk, aliyunClient.ENIStatusInUse, instanceOf(n), "", map[string]string{}, start.Add(-24*time.Hour), false)
			id = t.ID
		}
		trunkIDs[n] = id
		objs = append(objs, w.nodeObject(n, id))
	}
	for _, pe := range w.cfg.Pop {
		created := start.Add(-time.Duration(pe.AgeS) * time.Second)
		if pe.Member && trunk {
			e := w.cloud.newENI(aliyunClient.ENITypeMember, aliyunClient.ENIStatusInUse, instanceOf(nodeNames[0]), trunkIDs[nodeNames[0]], tagsOf(pe.Tags), created, false)
			w.cloud.vid++
			e.Vid = 100 + w.cloud.vid
		} else {
			w.cloud.newENI(aliyunClient.ENITypeSecondary, aliyunClient.ENIStatusAvailable, "", "", tagsOf(pe.Tags), created, false)
		}
	}
	for _, ps := range w.cfg.Pods {
		p := &podState{spec: ps}
		w.pods = append(w.pods, p)
		if ps.Via == "pn" {
			ats := w.allocTypes(p)
			if len(ats) == 1 {
				objs = append(objs, &v1beta1.PodNetworking{ObjectMeta: metav1.ObjectMeta{Name: "pn-" + ps.Name},
					Spec: v1beta1.PodNetworkingSpec{AllocationType: ats[0], VSwitchOptions: []string{"vsw-1"}, SecurityGroupIDs: []string{"sg-1"}}})
			}
		}
	}
	w.api = kit.NewSimAPI(w.run, types.Scheme, []client.Object{&v1beta1.PodENI{}, &corev1.Pod{}, &corev1.Node{}}, objs...)
	w.api.Decide = func(op string, obj runtime.Object) kit.APIFault {
		f := w.faultAt("api." + op + "." + kit.KindOf(obj))
		if g := w.faultAt("api." + op); f == "" {
			f = g
		}
		switch f {
		case "err":
			return kit.APIErrBefore
		case "err-after":
			return kit.APIErrAfter
		case "conflict":
			return kit.APIConflict
		}
		return kit.APIOk
	}
	w.api.OnWrite = w.onAPIWrite
	if w.cfg.CacheLagMs > 0 {
		w.api.EnableCache(func(kind string) time.Duration {
			// one of: at once, a tenth, all of the configured lag
			return time.Duration(w.cfg.CacheLagMs) * time.Millisecond * time.Duration([]int{0, 1, 10}[w.pick(3, "cache-lag")]) / 10
		}, w.onDeliver)
	}
	for _, n := range nodeNames {
		var t *daemon.ENI
		if trunk {
			t = &daemon.ENI{ID: trunkIDs[n], MAC: w.cloud.enis[trunkIDs[n]].MAC}
		}
		w.remote[n] = eni.NewRemote(w.api.Client, t)
	}

	w.faultsOn = false
	w.startControllers()
	w.faultsOn = !sc.Strict

	for _, op := range sc.Ops {
		if op.DelayMs > 0 {
			simrt.Sleep(time.Duration(op.DelayMs) * time.Millisecond)
		}
		w.runOp(op)
	}
	w.waitOps()
	w.settle()
}

func (w *World) waitOps() {
	for len(w.pending) > 0 {
		d := w.pending[0]
		w.pending = w.pending[1:]
		simrt.Recv(d)
	}
}

func (w *World) spawn(name string, async bool, fn func()) {
	done := make(chan struct{})
	w.run.S.GoNamed(name, 0, func() {
		defer close(done)
		fn()
	})
	if async {
		w.pending = append(w.pending, done)
	} else {
		simrt.Recv(done)
	}
}

func (w *World) runOp(op Op) {
	var p *podState
	if op.Pod >= 0 && op.Pod < len(w.pods) {
		p = w.pods[op.Pod]
	}
	switch op.Kind {
	case "create":
		if p == nil || p.exists {
			return
		}
		w.createPod(p, nodeNames[op.Node%len(nodeNames)])
		uid := p.uid
		w.spawn("add:"+p.spec.Name, true, func() { w.cniAdd(p, uid) })
	case "delete":
		if p == nil || !p.exists {
			return
		}
		uid := p.uid
		w.spawn("down:"+p.spec.Name, op.Async, func() { w.podDown(p, uid, op.Mode) })
	case "exit":
		if p == nil || !p.exists || p.exited {
			return
		}
		w.exitPod(p)
	case "add":
		if p == nil || !p.exists {
			return
		}
		uid := p.uid
		w.spawn("add:"+p.spec.Name, op.Async, func() { w.cniAdd(p, uid) })
	case "sleep":
		d := time.Duration(op.SleepS) * time.Second
		if op.RelTTLMs != 0 && p != nil && p.spec.TTLs > 0 {
			d = time.Duration(p.spec.TTLs)*time.Second + time.Duration(op.RelTTLMs)*time.Millisecond
		}
		if d > 0 {
			simrt.Sleep(d)
		}
	case "restart-ctrl":
		w.run.Fault("process.controller-restart")
		w.run.S.Log("ops", "controller restart")
		w.startControllers()
	case "barrier":
		w.waitOps()
	}
}

// ---- pod life cycle (kubelet, scheduler, workload controllers)

func (w *World) truthPod(name string) *corev1.Pod {
	pod := &corev1.Pod{}
	if err := w.api.Inner.Get(context.Background(), client.ObjectKey{Namespace: ns, Name: name}, pod); err != nil {
		return nil
	}
	return pod
}

func (w *World) podEvent(name string) {
	if w.cfg.CacheLagMs > 0 {
		return // the event fires when the informer delivers the change
	}
	if pod := w.truthPod(name); pod != nil && !podctl.ProcessPodForSim(pod) {
		return
	}
	w.podQ.Add(name)
}

// onDeliver is the controllers' event handlers under the cache model.
func (w *World) onDeliver(kind string, key client.ObjectKey, obj client.Object) {
	switch kind {
	case "Pod":
		if obj != nil && !podctl.ProcessPodForSim(obj) {
			return
		}
		w.podQ.Add(key.Name)
	case "PodENI":
		old := w.deliveredENI[key.Name]
		if obj == nil {
			delete(w.deliveredENI, key.Name)
			w.eniQ.Add(key.Name)
			return
		}
		cur := obj.(*v1beta1.PodENI)
		w.deliveredENI[key.Name] = cur.DeepCopy()
		if old == nil || old.UID != cur.UID || (old.ResourceVersion != cur.ResourceVersion && podeni.UpdateEventPassesForSim(old, cur)) {
			w.eniQ.Add(key.Name)
		}
	}
}

func (w *World) createPod(p *podState, node string) {
	p.uidGen++
	p.uid = fmt.Sprintf("uid-%s-%d", p.spec.Name, p.uidGen)
	p.node = node
	p.exists, p.exited = true, false
	p.created = time.Now()
	if rec := w.truthENI(p.spec.Name); rec != nil && rec.DeletionTimestamp.IsZero() && rec.Status.Phase != v1beta1.ENIPhaseDeleting && rec.Spec.HaveFixedIP() && len(p.lastIPs) > 0 {
		w.keptAtCreate[p.uid] = true // a record whose addresses a predecessor really had is there for this incarnation to take over
	}
	obj := w.podObject(p)
	if err := w.api.DirectWrite(obj, func() error { return w.api.Inner.Create(context.Background(), obj) }); err != nil {
		panic(fmt.Sprintf("harness: create pod: %v", err))
	}
	w.run.S.Log("kubelet", "pod %s created uid=%s on %s (%s)", p.spec.Name, p.uid, node, p.spec.Kind)
	w.podEvent(p.spec.Name)
}

func (w *World) setPhase(p *podState, phase corev1.PodPhase, v4, v6 string) {
	pod := w.truthPod(p.spec.Name)
	if pod == nil {
		return
	}
	pod.Status.Phase = phase
	if v4 != "" || v6 != "" {
		pod.Status.PodIP, pod.Status.PodIPs = "", nil
		for _, ip := range []string{v4, v6} {
			if ip == "" {
				continue
			}
			if pod.Status.PodIP == "" {
				pod.Status.PodIP = ip
			}
			pod.Status.PodIPs = append(pod.Status.PodIPs, corev1.PodIP{IP: ip})
		}
	}
	_ = w.api.DirectWrite(pod, func() error { return w.api.Inner.Status().Update(context.Background(), pod) })
	w.podEvent(p.spec.Name)
}

func (w *World) exitPod(p *podState) {
	p.exited = true
	p.doneAt = time.Now() // from here on the pod no longer needs its interfaces: the TTL of a fixed record runs
	w.setPhase(p, corev1.PodSucceeded, "", "")
	w.run.S.Log("kubelet", "pod %s exited (Succeeded)", p.spec.Name)
}

func (w *World) removePodObject(p *podState) {
	pod := w.truthPod(p.spec.Name)
	if pod == nil {
		return
	}
	if pod.DeletionTimestamp.IsZero() {
		_ = w.api.DirectWrite(pod, func() error { return w.api.Inner.Delete(context.Background(), pod) })
		pod = w.truthPod(p.spec.Name)
	}
	if pod != nil {
		pod.Finalizers = nil
		_ = w.api.DirectWrite(pod, func() error { return w.api.Inner.Update(context.Background(), pod) })
	}
	p.exists = false
	p.goneAt = time.Now()
	if !p.exited {
		p.doneAt = p.goneAt
	}
	w.run.S.Log("kubelet", "pod object %s (uid %s) removed", p.spec.Name, p.uid)
	w.podEvent(p.spec.Name)
}

func (w *World) podDown(p *podState, uid, mode string) {
	if !p.exists || p.uid != uid {
		return
	}
	switch mode {
	case "force":
		// the object disappears at once
		w.removePodObject(p)
	case "exit-first":
		if !p.exited {
			w.exitPod(p)
		}
		simrt.Sleep(time.Duration(1+w.pick(5, "down-gap")) * time.Second)
		if p.exists && p.uid == uid {
			w.removePodObject(p)
		}
	default:
		// graceful: deletion timestamp, containers stop, object removed
		if pod := w.truthPod(p.spec.Name); pod != nil {
			_ = w.api.DirectWrite(pod, func() error { return w.api.Inner.Delete(context.Background(), pod) })
			w.run.S.Log("kubelet", "pod %s terminating", p.spec.Name)
			w.podEvent(p.spec.Name)
		}
		simrt.Sleep(time.Duration(1+w.pick(8, "down-gap")) * time.Second)
		if w.pick(2, "down-exit-visible") == 0 && p.exists && p.uid == uid && !p.exited {
			w.exitPod(p)
			simrt.Sleep(time.Duration(w.pick(4, "down-gap2")) * time.Second)
		}
		if p.exists && p.uid == uid {
			w.removePodObject(p)
		}
	}
}

// cniAdd is the daemon side of a CNI ADD for a pod that uses a per-pod interface: wait for the
// record through the real gate.
func (w *World) cniAdd(p *podState, uid string) {
	ctx, cancel := context.WithTimeout(context.Background(), 120*time.Second)
	defer cancel()
	node := p.node
	begin := time.Now()
	w.run.S.Log("cni", "ADD invoke %s uid=%s on %s", p.spec.Name, uid, node)
	ch, _ := w.remote[node].Allocate(ctx, &daemon.CNI{PodName: p.spec.Name, PodNamespace: ns, PodUID: uid}, &eni.RemoteIPRequest{})
	idx, v, _ := simrt.Select(false, simrt.RecvCase(ch), simrt.RecvCase(ctx.Done()))
	if idx != 0 {
		w.run.S.Log("cni", "ADD %s timed out", p.spec.Name)
		w.run.Probe("add-timeout")
		return
	}
	resp, _ := v.Interface().(*eni.AllocResp)
	if resp == nil || resp.Err != nil {
		w.run.S.Log("cni", "ADD return %s err=%v", p.spec.Name, resp.Err)
		w.run.Probe("add-failed")
		return
	}
	w.run.Probe("add-ok")
	w.run.Eval()
	var ips, enis []string
	for _, nr := range resp.NetworkConfigs {
		for _, nc := range nr.ToRPC() {
			if nc.BasicInfo != nil && nc.BasicInfo.PodIP != nil {
				ips = append(ips, nc.BasicInfo.PodIP.IPv4)
			}
		}
	}
	w.run.S.Log("cni", "ADD return %s -> %v", p.spec.Name, ips)
	// C10 O3: the gate opens only for a record that was bound to this very pod during the request
	// (through a lagging cache the version it saw may be up to the lag older than the request)
	if !w.wasBoundSince(p.spec.Name, uid, begin.Add(-time.Duration(w.cfg.CacheLagMs)*time.Millisecond)) {
		w.run.Violate("C10", "gate", "daemon-accepted-record-not-bound-to-this-pod", "Remote.Allocate for %s (uid %s) succeeded although no version of the record was bound with that uid during the request", p.spec.Name, uid)
	}
	if rec := w.prevENI[p.spec.Name]; rec != nil {
		for _, a := range rec.Spec.Allocations {
			enis = append(enis, a.ENI.ID)
		}
	}
	// C11 O1: a fixed-IP pod recreated while its record had to be kept gets the same interface and address back
	if p.exists && p.uid == uid && p.fixed() {
		if len(p.lastIPs) > 0 && w.mustHaveKept(p) && !sameSet(p.lastIPs, ips) {
			w.run.Violate("C11", "fixed-ip", "recreated-pod-got-other-address", "pod %s (uid %s) was recreated %s after its predecessor exited or vanished (ttl %ds) and got %v, the record held %v", p.spec.Name, uid, p.created.Sub(p.doneAt).Round(time.Millisecond), p.spec.TTLs, ips, p.lastIPs)
		}
		p.lastIPs, p.lastENIs = ips, enis
	}
	if p.exists && p.uid == uid && !p.exited {
		v4 := ""
		if len(ips) > 0 {
			v4 = ips[0]
		}
		w.setPhase(p, corev1.PodRunning, v4, "")
	}
}

// mustHaveKept: the predecessor of this incarnation vanished less than the TTL (minus a margin for
// the collection tick that observes the pod) before this one was created, or the strategy is Never.
func (w *World) mustHaveKept(p *podState) bool {
	if p.doneAt.IsZero() {
		return false
	}
	switch p.spec.Kind {
	case "never", "mixed":
		return true
	case "ttl":
		if !w.sc.Strict {
			return false
		}
		// without faults the controller last observed the predecessor at most one collection period
		// (<= 2.1 min) before it vanished, so the record is certainly kept for ttl - 200 s after that
		return p.created.Sub(p.doneAt) < time.Duration(p.spec.TTLs)*time.Second-200*time.Second
	}
	return false
}

func sameSet(a, b []string) bool {
	if len(a) != len(b) {
		return false
	}
	x, y := append([]string{}, a...), append([]string{}, b...)
	sort.Strings(x)
	sort.Strings(y)
	for i := range x {
		if x[i] != y[i] {
			return false
		}
	}
	return true
}

// ---- API truth mirror, events, oracles on record changes

func (w *World) truthENI(name string) *v1beta1.PodENI {
	o := &v1beta1.PodENI{}
	if err := w.api.Inner.Get(context.Background(), client.ObjectKey{Namespace: ns, Name: name}, o); err != nil {
		return nil
	}
	return o
}

func (w *World) onAPIWrite(op string, obj client.Object) {
	switch o := obj.(type) {
	case *v1beta1.PodENI:
		w.recordChanged(o.Name)
	case *corev1.Pod:
		w.podEvent(o.Name)
	}
}

var _ = podeni.UpdateEventPassesForSim
