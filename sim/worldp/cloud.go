package worldp

import (
	"context"
	"fmt"
	"sort"
	"strings"
	"time"

	"github.com/aliyun/alibaba-cloud-sdk-go/services/ecs"
	"github.com/aliyun/alibaba-cloud-sdk-go/services/vpc"
	"k8s.io/apimachinery/pkg/util/wait"

	aliyunClient "github.com/AliyunContainerService/terway/pkg/aliyun/client"
	apiErr "github.com/AliyunContainerService/terway/pkg/aliyun/client/errors"
	register "github.com/AliyunContainerService/terway/pkg/controller"
	"github.com/AliyunContainerService/terway/types"

	"verif/sim/kit"
	"verif/sim/simrt"
)

const creationLayout = "2006-01-02T15:04:05Z"

// cENI is an elastic network interface as the simulated ECS control plane knows it.
type cENI struct {
	ID, MAC   string
	Type      string // Secondary | Member | Trunk | Primary
	Status    string
	Instance  string
	Trunk     string // trunk interface a member is attached through
	VSwitch   string
	SGs       []string
	V4, V6    string
	Tags      map[string]string
	Created   time.Time
	ReadyAt   time.Time // when a pending attach/detach completes
	NeverUp   bool      // the pending attach never completes
	Vid       int
	ByCtrl    bool   // created through CreateNetworkInterface in this run
	CreatedIn string // reconcile (key#n) in which it was created
}

// Cloud implements the part of register.Interface the pod and pod-eni controllers use.
type Cloud struct {
	register.Interface // nil: any other method is a harness bug and panics
	w                  *World
	enis               map[string]*cENI
	order              []string
	seq                int
	ipSeq              int
	vid                int
	inflight           int
	mutations          int
	timedOut           map[string]string // create parameters -> interface created by a call that then reported failure
	deleteFailed       map[string]bool
	adoptedAt          map[string]time.Time // interface -> when a retried create got it back through the idempotency token
	createFailed       map[string]bool      // interfaces created by a create call that reported failure, not adopted since
}

func newCloud(w *World) *Cloud {
	return &Cloud{w: w, enis: map[string]*cENI{}, timedOut: map[string]string{}, deleteFailed: map[string]bool{}, createFailed: map[string]bool{}, adoptedAt: map[string]time.Time{}}
}

func (c *Cloud) newENI(typ, status, instance, trunk string, tags map[string]string, created time.Time, byCtrl bool) *cENI {
	c.seq++
	c.ipSeq++
	e := &cENI{ID: fmt.Sprintf("eni-%02d", c.seq), MAC: fmt.Sprintf("02:00:00:00:%02x:%02x", c.seq/256, c.seq%256), Type: typ, Status: status, Instance: instance, Trunk: trunk,
		VSwitch: "vsw-1", SGs: []string{"sg-1"}, V4: fmt.Sprintf("10.0.%d.%d", c.ipSeq/250, 2+c.ipSeq%250), Tags: tags, Created: created, ByCtrl: byCtrl}
	if c.w.cfg.Stack == "dual" {
		e.V6 = fmt.Sprintf("fd00:db8::%x", 0x100+c.ipSeq)
	}
	c.enis[e.ID] = e
	c.order = append(c.order, e.ID)
	return e
}

// settle applies pending attach/detach transitions whose time has come.
func (c *Cloud) settle() {
	now := time.Now()
	for _, id := range c.order {
		e := c.enis[id]
		if e == nil || e.ReadyAt.IsZero() || now.Before(e.ReadyAt) || e.NeverUp {
			continue
		}
		switch e.Status {
		case aliyunClient.ENIStatusAttaching:
			e.Status = aliyunClient.ENIStatusInUse
		case aliyunClient.ENIStatusDetaching:
			e.Status = aliyunClient.ENIStatusAvailable
			e.Instance, e.Trunk = "", ""
			if e.Type == aliyunClient.ENITypeMember {
				e.Type = aliyunClient.ENITypeSecondary
			}
		}
		e.ReadyAt = time.Time{}
	}
}

func (c *Cloud) toAPI(e *cENI) *aliyunClient.NetworkInterface {
	n := &aliyunClient.NetworkInterface{
		Status: e.Status, MacAddress: e.MAC, NetworkInterfaceID: e.ID, VPCID: "vpc-1", VSwitchID: e.VSwitch, PrivateIPAddress: e.V4,
		PrivateIPSets: []aliyunClient.IPSet{{IPAddress: e.V4, Primary: true}}, ZoneID: "zone-a", SecurityGroupIDs: e.SGs,
		Type: e.Type, InstanceID: e.Instance, TrunkNetworkInterfaceID: e.Trunk, DeviceIndex: e.Vid,
		CreationTime: e.Created.UTC().Format(creationLayout),
	}
	if e.V6 != "" {
		n.IPv6Set = []aliyunClient.IPSet{{IPAddress: e.V6}}
	}
	keys := make([]string, 0, len(e.Tags))
	for k := range e.Tags {
		keys = append(keys, k)
	}
	sort.Strings(keys)
	for _, k := range keys {
		n.Tags = append(n.Tags, ecs.Tag{Key: k, Value: e.Tags[k], TagKey: k, TagValue: e.Tags[k]})
	}
	return n
}

func (c *Cloud) enter(site, detail string) string {
	simrt.Yield("cloud." + site)
	c.inflight++
	c.w.run.S.Log("cloud", "%s %s", site, detail)
	fault := c.w.faultAt("cloud." + site)
	lat := time.Duration(c.w.sc.LatencyMs) * time.Millisecond
	if fault == "slow" {
		lat += 20 * time.Second
		c.w.run.Fault("cloud.slow")
		fault = ""
	}
	if lat > 0 {
		simrt.Sleep(lat)
	}
	c.settle()
	return fault
}

func (c *Cloud) leave(site, detail string) {
	c.inflight--
	c.w.run.S.Log("cloud", "%s -> %s", site, detail)
}

func cloudErr(kind string) error {
	switch kind {
	case "throttle":
		return kit.CloudErr(apiErr.ErrThrottling, "injected throttling")
	case "vsw":
		return kit.CloudErr(apiErr.InvalidVSwitchIDIPNotEnough, "injected: vswitch has no address left")
	}
	return kit.CloudErr("InternalError", "injected cloud failure")
}

func paramKey(o *aliyunClient.NetworkInterfaceOptions) string {
	keys := make([]string, 0, len(o.Tags))
	for k, v := range o.Tags {
		keys = append(keys, k+"="+v)
	}
	sort.Strings(keys)
	return fmt.Sprintf("%s|%v|%s|%d|%d|%v", o.VSwitchID, o.SecurityGroupIDs, o.ResourceGroupID, o.IPCount, o.IPv6Count, keys)
}

func (c *Cloud) CreateNetworkInterface(ctx context.Context, opts ...aliyunClient.CreateNetworkInterfaceOption) (*aliyunClient.NetworkInterface, error) {
	o := &aliyunClient.CreateNetworkInterfaceOptions{}
	for _, op := range opts {
		op.ApplyCreateNetworkInterface(o)
	}
	nio := o.NetworkInterfaceOptions
	fault := c.enter("create", fmt.Sprintf("vsw=%s tags=%d", nio.VSwitchID, len(nio.Tags)))
	pkey := paramKey(nio)
	// same parameters => same idempotency token => the interface of a timed-out attempt is returned
	if id, ok := c.timedOut[pkey]; ok && fault != "err" && fault != "throttle" && fault != "vsw" {
		if e := c.enis[id]; e != nil && e.Status == aliyunClient.ENIStatusAvailable {
			if fault == "err-after" {
				c.w.run.Fault("cloud.create.err-after")
				c.leave("create", "err after effect (again) "+id)
				return nil, cloudErr(fault)
			}
			delete(c.timedOut, pkey)
			delete(c.createFailed, id)
			c.adoptedAt[id] = time.Now()
			e.CreatedIn = c.w.currentPass()
			c.w.run.Probe("create-retry-idempotent")
			c.leave("create", id+" (same token: existing interface)")
			return c.toAPI(e), nil
		}
		delete(c.timedOut, pkey)
	}
	switch fault {
	case "err", "throttle", "vsw":
		c.w.run.Fault("cloud.create." + fault)
		c.leave("create", "err "+fault)
		return nil, cloudErr(fault)
	}
	tags := map[string]string{}
	for k, v := range nio.Tags {
		tags[k] = v
	}
	e := c.newENI(aliyunClient.ENITypeSecondary, aliyunClient.ENIStatusAvailable, "", "", tags, time.Now(), true)
	e.VSwitch, e.SGs = nio.VSwitchID, nio.SecurityGroupIDs
	e.CreatedIn = c.w.currentPass()
	c.mutations++
	if fault == "err-after" {
		c.timedOut[pkey] = e.ID
		c.createFailed[e.ID] = true
		c.w.run.Fault("cloud.create.err-after")
		c.leave("create", "err after effect "+e.ID)
		return nil, cloudErr(fault)
	}
	c.leave("create", e.ID)
	return c.toAPI(e), nil
}

func (c *Cloud) AttachNetworkInterface(ctx context.Context, opts ...aliyunClient.AttachNetworkInterfaceOption) error {
	o := &aliyunClient.AttachNetworkInterfaceOptions{}
	for _, op := range opts {
		op.ApplyTo(o)
	}
	id, inst, trunk := "", "", ""
	if o.NetworkInterfaceID != nil {
		id = *o.NetworkInterfaceID
	}
	if o.InstanceID != nil {
		inst = *o.InstanceID
	}
	if o.TrunkNetworkInstanceID != nil {
		trunk = *o.TrunkNetworkInstanceID
	}
	fault := c.enter("attach", fmt.Sprintf("%s -> %s trunk=%q", id, inst, trunk))
	e := c.enis[id]
	if fault == "err" || fault == "throttle" || e == nil {
		c.w.run.Fault("cloud.attach.err")
		c.leave("attach", "err")
		if e == nil {
			return kit.CloudErr(apiErr.ErrInvalidENINotFound, "no such eni")
		}
		return cloudErr(fault)
	}
	if e.Status != aliyunClient.ENIStatusAvailable {
		if e.Instance == inst && e.Trunk == trunk && (e.Status == aliyunClient.ENIStatusInUse || e.Status == aliyunClient.ENIStatusAttaching) {
			c.leave("attach", "ok (already attached there)")
			return nil
		}
		c.leave("attach", "err invalid state "+e.Status)
		return kit.CloudErr(apiErr.ErrInvalidENIState, "eni is "+e.Status)
	}
	c.w.onAttach(e, inst, trunk)
	e.Status = aliyunClient.ENIStatusAttaching
	e.Instance, e.Trunk = inst, trunk
	if trunk != "" {
		e.Type = aliyunClient.ENITypeMember
		c.vid++
		e.Vid = 100 + c.vid
	}
	e.ReadyAt = time.Now().Add(time.Duration(1+c.w.pick(4, "attach-delay")) * time.Second)
	e.NeverUp = false
	if fault == "never" {
		e.NeverUp = true
		c.w.run.Fault("cloud.attach.never-completes")
	}
	c.mutations++
	if fault == "err-after" {
		c.w.run.Fault("cloud.attach.err-after")
		c.leave("attach", "err after effect")
		return cloudErr(fault)
	}
	c.leave("attach", "ok")
	return nil
}

func (c *Cloud) DetachNetworkInterface(ctx context.Context, eniID, instanceID, trunkENIID string) error {
	fault := c.enter("detach", eniID)
	c.w.onRemoval("detach", eniID)
	if fault == "err" || fault == "throttle" {
		c.w.run.Fault("cloud.detach.err")
		c.leave("detach", "err")
		return cloudErr(fault)
	}
	e := c.enis[eniID]
	if e == nil || e.Instance == "" {
		c.leave("detach", "ok (not attached)")
		return nil
	}
	e.Status = aliyunClient.ENIStatusDetaching
	e.NeverUp = false
	e.ReadyAt = time.Now().Add(time.Duration(1+c.w.pick(4, "detach-delay")) * time.Second)
	c.mutations++
	if fault == "err-after" {
		c.w.run.Fault("cloud.detach.err-after")
		c.leave("detach", "err after effect")
		return cloudErr(fault)
	}
	c.leave("detach", "ok")
	return nil
}

func (c *Cloud) DeleteNetworkInterface(ctx context.Context, eniID string) error {
	fault := c.enter("delete", eniID)
	c.w.onRemoval("delete", eniID)
	if fault == "err" || fault == "throttle" {
		c.w.run.Fault("cloud.delete.err")
		c.deleteFailed[eniID] = true
		c.leave("delete", "err")
		return cloudErr(fault)
	}
	e := c.enis[eniID]
	if e != nil {
		if e.Status != aliyunClient.ENIStatusAvailable {
			c.deleteFailed[eniID] = true
			c.leave("delete", "err invalid state "+e.Status)
			return kit.CloudErr(apiErr.ErrInvalidENIState, "eni is "+e.Status)
		}
		delete(c.enis, eniID)
		c.mutations++
	}
	if fault == "err-after" {
		c.w.run.Fault("cloud.delete.err-after")
		c.leave("delete", "err after effect")
		return cloudErr(fault)
	}
	c.leave("delete", "ok")
	return nil
}

func (c *Cloud) WaitForNetworkInterface(ctx context.Context, eniID string, status string, backoff wait.Backoff, ignoreNotExist bool) (*aliyunClient.NetworkInterface, error) {
	// same contract as the real client: poll Describe with the given backoff
	steps := backoff.Steps
	d := backoff.Duration
	if steps <= 0 {
		steps = 1
	}
	for i := 0; i < steps; i++ {
		simrt.Sleep(d)
		fault := c.enter("wait", eniID+" for "+status)
		if fault == "err" || fault == "throttle" {
			c.w.run.Fault("cloud.wait.err")
			c.leave("wait", "err")
			return nil, cloudErr(fault)
		}
		e := c.enis[eniID]
		if e == nil {
			c.leave("wait", "not found")
			if ignoreNotExist {
				return nil, apiErr.ErrNotFound
			}
			return nil, apiErr.ErrNotFound
		}
		c.leave("wait", e.Status)
		if e.Status == status {
			return c.toAPI(e), nil
		}
		if ctx.Err() != nil {
			return nil, ctx.Err()
		}
		if backoff.Factor > 0 {
			d = time.Duration(float64(d) * backoff.Factor)
		}
	}
	return nil, fmt.Errorf("error wait for eni %v to status %s, %w", eniID, status, wait.ErrWaitTimeout)
}

func (c *Cloud) DescribeNetworkInterface(ctx context.Context, vpcID string, eniID []string, instanceID string, instanceType string, status string, tags map[string]string) ([]*aliyunClient.NetworkInterface, error) {
	fault := c.enter("describe", fmt.Sprintf("ids=%v type=%s status=%s", eniID, instanceType, status))
	if len(eniID) == 0 && instanceType == aliyunClient.ENITypeSecondary && c.w.currentPass() == "" {
		c.w.leakTicks = append(c.w.leakTicks, time.Now())
	}
	if fault == "err" || fault == "throttle" {
		c.w.run.Fault("cloud.describe.err")
		c.leave("describe", "err")
		return nil, cloudErr(fault)
	}
	var out []*aliyunClient.NetworkInterface
	for _, id := range c.order {
		e := c.enis[id]
		if e == nil {
			continue
		}
		if len(eniID) > 0 && !contains(eniID, id) {
			continue
		}
		if instanceID != "" && e.Instance != instanceID {
			continue
		}
		if instanceType != "" && e.Type != instanceType {
			continue
		}
		if status != "" && e.Status != status {
			continue
		}
		ok := true
		for k, v := range tags {
			if e.Tags[k] != v {
				ok = false
			}
		}
		if !ok {
			continue
		}
		out = append(out, c.toAPI(e))
	}
	for i := len(out) - 1; i > 0; i-- {
		j := simrt.Choose(i+1, "describe-order")
		out[i], out[j] = out[j], out[i]
	}
	c.leave("describe", fmt.Sprintf("%d", len(out)))
	return out, nil
}

func (c *Cloud) DescribeVSwitchByID(ctx context.Context, vSwitchID string) (*vpc.VSwitch, error) {
	fault := c.enter("vsw", vSwitchID)
	if fault == "err" || fault == "throttle" {
		c.w.run.Fault("cloud.vsw.err")
		c.leave("vsw", "err")
		return nil, cloudErr(fault)
	}
	c.leave("vsw", "ok")
	return &vpc.VSwitch{VSwitchId: vSwitchID, ZoneId: "zone-a", AvailableIpAddressCount: 1000, CidrBlock: "10.0.0.0/16", Ipv6CidrBlock: "fd00:db8::/64"}, nil
}

func (c *Cloud) DescribeInstanceTypes(ctx context.Context, t []string) ([]ecs.InstanceType, error) {
	return nil, fmt.Errorf("not available in this world")
}

// orphanOfFailedCreate: created by a call that reported failure and never handed to a caller since.
func (c *Cloud) orphanOfFailedCreate(id string) bool { return c.createFailed[id] }

func contains(l []string, s string) bool {
	for _, x := range l {
		if x == s {
			return true
		}
	}
	return false
}

func oursTags() map[string]string {
	return map[string]string{types.TagKeyClusterID: clusterID, types.NetworkInterfaceTagCreatorKey: types.TagTerwayController}
}

func tagsOf(kind string) map[string]string {
	switch kind {
	case "ours":
		return oursTags()
	case "other-cluster":
		return map[string]string{types.TagKeyClusterID: "c-other", types.NetworkInterfaceTagCreatorKey: types.TagTerwayController}
	case "other-creator":
		return map[string]string{types.TagKeyClusterID: clusterID, types.NetworkInterfaceTagCreatorKey: "terway"}
	case "cluster-only":
		return map[string]string{types.TagKeyClusterID: clusterID}
	case "creator-only":
		return map[string]string{types.NetworkInterfaceTagCreatorKey: types.TagTerwayController}
	}
	return map[string]string{}
}

func isOurs(e *cENI) bool {
	return e.Tags[types.TagKeyClusterID] == clusterID && e.Tags[types.NetworkInterfaceTagCreatorKey] == types.TagTerwayController
}

func short(s string) string { return strings.TrimPrefix(s, "default/") }
