package worldp

import "math/rand/v2"

func oneOf[T any](rng *rand.Rand, xs ...T) T { return xs[rng.IntN(len(xs))] }

func pickW(rng *rand.Rand, xs []string, ws []int) string {
	t := 0
	for _, w := range ws {
		t += w
	}
	n := rng.IntN(t)
	for i, w := range ws {
		if n < w {
			return xs[i]
		}
		n -= w
	}
	return xs[len(xs)-1]
}

var faultKinds = map[string][]string{
	"cloud.create":      {"err", "err-after", "throttle", "vsw", "slow"},
	"cloud.attach":      {"err", "err-after", "never", "throttle", "slow"},
	"cloud.detach":      {"err", "err-after", "throttle"},
	"cloud.delete":      {"err", "err-after", "throttle"},
	"cloud.wait":        {"err"},
	"cloud.describe":    {"err", "throttle"},
	"cloud.vsw":         {"err"},
	"api.get":           {"err"},
	"api.list":          {"err"},
	"api.create":        {"err", "err-after"},
	"api.update":        {"err", "err-after", "conflict"},
	"api.delete":        {"err", "err-after"},
	"api.patch":         {"err", "err-after"},
	"api.status-update": {"err", "err-after", "conflict"},
	"api.status-patch":  {"err", "err-after"},
}

// kind-specific API sites: their counters only advance on calls for that kind, so a planned fault
// can land on, say, the collection loop's 40th look at a pod
var kindSites = []string{"api.get.Pod", "api.get.PodENI", "api.get.Node", "api.list.PodENIList", "api.status-update.PodENI", "api.update.PodENI", "api.status-patch.PodENI", "api.delete.PodENI", "api.create.PodENI"}

var faultSites = []string{"cloud.create", "cloud.attach", "cloud.detach", "cloud.delete", "cloud.wait", "cloud.describe", "cloud.vsw",
	"api.get", "api.list", "api.create", "api.update", "api.delete", "api.patch", "api.status-update", "api.status-patch"}

func generate(rng *rand.Rand, prop, tier string) *Scenario {
	thorough := tier == "thorough"
	sc := &Scenario{Profile: prop}
	c := &sc.Cfg
	c.Trunk = rng.IntN(3) != 0
	c.CacheLagMs = oneOf(rng, 0, 0, 100, 1000, 5000)
	c.Stack = pickW(rng, []string{"v4", "dual"}, []int{70, 30})
	npods := 1 + rng.IntN(4)
	kinds, kw := []string{"elastic", "ttl", "never", "mixed", "two"}, []int{45, 25, 10, 8, 12}
	if prop == "C11" {
		kw = []int{15, 50, 15, 15, 5}
	}
	for i := 0; i < npods; i++ {
		ps := PodSpec{Name: string(rune('a'+i)) + "-0", Kind: pickW(rng, kinds, kw), Via: oneOf(rng, "pn", "anno")}
		ps.Owner = pickW(rng, []string{"", "sts", "deploy"}, []int{30, 50, 20})
		if ps.Kind != "elastic" && ps.Kind != "two" && ps.Owner == "deploy" && rng.IntN(4) != 0 {
			ps.Owner = "sts" // fixed IPs are for fixed names; a few mismatches are kept on purpose
		}
		if ps.Kind == "ttl" || ps.Kind == "mixed" {
			ps.TTLs = oneOf(rng, 0, 30, 300, 300, 600, 1200)
		}
		c.Pods = append(c.Pods, ps)
	}
	// the population the leak collector walks through
	npop := rng.IntN(4)
	if prop == "C11" {
		npop = 2 + rng.IntN(6)
	}
	for i := 0; i < npop; i++ {
		c.Pop = append(c.Pop, PopENI{
			Tags:   pickW(rng, []string{"ours", "other-cluster", "other-creator", "cluster-only", "creator-only", "none"}, []int{40, 15, 15, 10, 10, 10}),
			AgeS:   oneOf(rng, 0, 60, 300, 540, 595, 599, 600, 601, 660, 3600, 86400),
			Member: c.Trunk && rng.IntN(3) == 0,
		})
	}
	sc.Strict = rng.IntN(4) == 0
	sc.LatencyMs = oneOf(rng, 0, 0, 100, 1000)
	nops := 3 + rng.IntN(9)
	if thorough {
		nops = 6 + rng.IntN(30)
	}
	opk := []string{"create", "delete", "exit", "add", "sleep", "restart-ctrl", "barrier"}
	opw := []int{38, 28, 5, 4, 18, 3, 4}
	for i := 0; i < nops; i++ {
		op := Op{Kind: pickW(rng, opk, opw), Pod: rng.IntN(npods), Async: rng.IntN(2) == 0}
		op.DelayMs = oneOf(rng, 0, 0, 0, 100, 1000, 4000)
		switch op.Kind {
		case "create":
			op.Node = 0
			if rng.IntN(5) == 0 {
				op.Node = 1 // the pod comes back on another node
			}
		case "delete":
			op.Mode = pickW(rng, []string{"graceful", "force", "exit-first"}, []int{60, 25, 15})
		case "sleep":
			op.SleepS = oneOf(rng, 1, 5, 30, 70, 130, 400, 700, 1300)
			if rng.IntN(3) == 0 {
				// absence around the TTL of that pod
				op.RelTTLMs = oneOf(rng, -200000, -140000, -100000, -5000, -1000, 0, 1000, 5000, 100000, 200000)
			}
		}
		sc.Ops = append(sc.Ops, op)
	}
	if !sc.Strict {
		rate := oneOf(rng, 0.05, 0.15, 0.3)
		for _, site := range faultSites {
			if rng.IntN(2) == 0 {
				continue
			}
			for nth := 0; nth < 12; nth++ {
				if rng.Float64() < rate {
					sc.Faults = append(sc.Faults, PlannedFault{Site: site, Nth: nth, Kind: oneOf(rng, faultKinds[site]...)})
				}
			}
		}
	}
	if !sc.Strict {
		for _, site := range kindSites {
			if rng.IntN(3) != 0 {
				continue
			}
			gen := site[:len(site)-len(site[lastDot(site):])]
			for k := 0; k < 1+rng.IntN(4); k++ {
				sc.Faults = append(sc.Faults, PlannedFault{Site: site, Nth: rng.IntN(80), Kind: oneOf(rng, faultKinds[gen]...)})
			}
		}
	}
	sc.SettleS = oneOf(rng, 1500, 2400, 3000)
	return sc
}

func lastDot(s string) int {
	for i := len(s) - 1; i >= 0; i-- {
		if s[i] == '.' {
			return i
		}
	}
	return len(s)
}
