// Package worldp is World P: the per-pod ENI life cycle — the real pod controller and the real
// pod-eni controller (with its two collection loops) and the daemon-side gate eni.Remote, against
// a simulated API server, a simulated cloud behind register.Interface and a workload model of
// kubelet/scheduler/StatefulSet controller.
package worldp

import (
	"context"
	"encoding/json"
	"fmt"
	"math/rand/v2"
	"testing"
	"time"

	"github.com/go-logr/logr"
	corev1 "k8s.io/api/core/v1"
	metav1 "k8s.io/apimachinery/pkg/apis/meta/v1"
	k8stypes "k8s.io/apimachinery/pkg/types"
	logf "sigs.k8s.io/controller-runtime/pkg/log"
	"sigs.k8s.io/controller-runtime/pkg/reconcile"

	"github.com/AliyunContainerService/terway/pkg/apis/network.alibabacloud.com/v1beta1"
	podctl "github.com/AliyunContainerService/terway/pkg/controller/pod"
	podeni "github.com/AliyunContainerService/terway/pkg/controller/pod-eni"
	"github.com/AliyunContainerService/terway/pkg/controller/status"
	"github.com/AliyunContainerService/terway/pkg/eni"
	"github.com/AliyunContainerService/terway/pkg/vswitch"
	"github.com/AliyunContainerService/terway/types"

	"verif/sim/kit"
	"verif/sim/simrt"
)

func init() { logf.SetLogger(logr.Discard()) }

const (
	ns        = "default"
	clusterID = "c-1"
)

var nodeNames = []string{"node-1", "node-2"}

func instanceOf(node string) string { return "i-" + node[len(node)-1:] }

// PodSpec is one pod name of the scenario; every creation under the name gets a new UID.
type PodSpec struct {
	Name string `json:"name"`
	// Kind of the allocation(s): elastic | ttl | never | mixed (two interfaces: ttl + never) | two (two elastic interfaces)
	Kind string `json:"kind"`
	TTLs int    `json:"ttl_s,omitempty"`
	// Owner: "" (bare pod, fixed name) | sts | deploy
	Owner string `json:"owner,omitempty"`
	// Via: "pn" (PodNetworking object) | "anno" (pod-networks annotation)
	Via string `json:"via"`
}

// PopENI is an interface present in the cloud before the run (the population the leak collector sees).
type PopENI struct {
	Tags   string `json:"tags"`   // ours | other-cluster | other-creator | cluster-only | creator-only | none
	AgeS   int    `json:"age_s"`  // age when the run begins
	Member bool   `json:"member"` // attached to node-1's trunk (InUse, type Member) instead of Available
}

type Config struct {
	// CacheLagMs > 0: the controllers read through an informer cache that lags the API server by up
	// to this much (events fire on delivery); 0: direct reads, events at write time
	CacheLagMs int       `json:"cache_lag_ms,omitempty"`
	Trunk      bool      `json:"trunk"`
	Stack      string    `json:"stack"` // v4 | dual
	Pods       []PodSpec `json:"pods"`
	Pop        []PopENI  `json:"pop,omitempty"`
}

type Op struct {
	Kind    string `json:"kind"` // create | delete | exit | add | sleep | restart-ctrl | barrier
	Pod     int    `json:"pod"`
	Node    int    `json:"node,omitempty"`
	Mode    string `json:"mode,omitempty"` // delete: graceful | force | exit-first
	Async   bool   `json:"async,omitempty"`
	DelayMs int    `json:"delay_ms,omitempty"`
	SleepS  int    `json:"sleep_s,omitempty"`
	// RelTTL: sleep = pod's TTL + RelTTLMs (absence drawn around the TTL boundary)
	RelTTLMs int `json:"rel_ttl_ms,omitempty"`
}

type PlannedFault struct {
	Site string `json:"site"`
	Nth  int    `json:"nth"`
	Kind string `json:"kind"`
}

type Scenario struct {
	Profile   string         `json:"profile"`
	Cfg       Config         `json:"cfg"`
	Ops       []Op           `json:"ops"`
	Faults    []PlannedFault `json:"faults,omitempty"`
	LatencyMs int            `json:"latency_ms"`
	SettleS   int            `json:"settle_s"`
	Strict    bool           `json:"strict"` // fault-free configuration
}

type podState struct {
	spec    PodSpec
	uid     string
	uidGen  int
	node    string
	exists  bool
	exited  bool
	goneAt  time.Time // the pod object disappeared
	doneAt  time.Time // the pod stopped needing its interfaces: sandbox exited or object gone, whichever came first
	created time.Time
	// fixed-IP memory: what the last bound record of this name held
	lastENIs      []string
	lastIPs       []string
	lastSeenAlive time.Time // harness: last instant the pod object (requiring the record) existed
}

type World struct {
	run   *kit.Run
	sc    *Scenario
	cfg   *Config
	cloud *Cloud
	api   *kit.SimAPI
	pods  []*podState

	podCtl  *podctl.ReconcilePod
	eniCtl  *podeni.ReconcilePodENI
	vsw     *vswitch.SwitchPool
	ctlGen  int
	ctlCtx  context.Context
	ctlStop context.CancelFunc
	podQ    *queue
	eniQ    *queue
	remote  map[string]*eni.Remote // per node

	faultsOn  bool
	faultIdx  map[string]int
	faultPlan map[string]string
	pending   []chan struct{}

	// truth mirrors
	deliveredENI map[string]*v1beta1.PodENI // by name, last version the informer delivered (cache model)
	prevENI      map[string]*v1beta1.PodENI // by name, last version seen by the API server
	removedAt    map[string]time.Time       // record name -> when it disappeared
	passes       map[string]int             // queue/key -> reconcile counter
	current      map[int]string             // task id -> pass label
	bound        map[boundKey]time.Time     // (record, pod uid) -> last time the API server held it as Bind for that uid
	boundEnd     map[boundKey]time.Time     // (record, pod uid) -> when it last stopped being Bind for that uid
	unrefAt      map[string]time.Time       // interface -> when the record listing it disappeared
	keptAtCreate map[string]bool            // pod uid -> a kept fixed-IP record existed when this incarnation was created
	leakTicks    []time.Time                // starts of the leak collector's passes
}

func (w *World) pick(n int, tag string) int { return w.run.S.Choose(n, tag) }

func (w *World) faultAt(site string) string {
	n := w.faultIdx[site]
	w.faultIdx[site] = n + 1
	if !w.faultsOn {
		return ""
	}
	return w.faultPlan[fmt.Sprintf("%s#%d", site, n)]
}

// currentPass names the reconcile the calling task is in ("" outside any).
func (w *World) currentPass() string {
	for _, id := range w.run.S.Ancestors() {
		if l, ok := w.current[id]; ok {
			return l
		}
	}
	return ""
}

// ---------------------------------------------------------------------------------------

type PodWorld struct{}

func (PodWorld) Name() string { return "P" }
func (PodWorld) Components() map[string][]string {
	return map[string][]string{
		"real": {"pkg/controller/pod ReconcilePod (Reconcile, podCreate with parallel createENI and rollback, podDelete, reConfig, parse)",
			"pkg/controller/pod-eni ReconcilePodENI (Reconcile, podENICreate, attachENI, detach, podENIDelete, gcCRPodENIs, gcSecondaryENI, gcMemberENI, gcENIs; the two JitterUntil loops on the fake clock)",
			"pkg/controller/status", "pkg/vswitch SwitchPool", "pkg/eni Remote.Allocate (daemon-side gate)", "golang.org/x/sync/errgroup (instrumented copy)", "controller-runtime fake client (API server, finalizers, status subresource)"},
		"stub": {"register.Interface -> simulated ECS control plane (create/attach/detach/delete/describe/wait, tags, creation time, idempotency token of create)",
			"controller-runtime manager, informers and work queues (one reconcile per key at a time, events from API writes through the controllers' own predicates, Requeue/RequeueAfter/error back-off)",
			"kubelet, scheduler, StatefulSet controller (pod life-cycle model)", "types/controlplane configuration (set once per process)"},
	}
}

func (PodWorld) Decode(raw json.RawMessage) (any, error) {
	sc := &Scenario{}
	return sc, json.Unmarshal(raw, sc)
}

func (PodWorld) Generate(rng *rand.Rand, prop, tier string) any { return generate(rng, prop, tier) }

func (PodWorld) Run(t *testing.T, scAny any, chooser simrt.Chooser, keepLog bool) *kit.Result {
	sc := scAny.(*Scenario)
	return kit.Execute(t, chooser, keepLog, 600_000, func(run *kit.Run) {
		w := &World{run: run, sc: sc, cfg: &sc.Cfg, faultIdx: map[string]int{}, faultPlan: map[string]string{}, remote: map[string]*eni.Remote{},
			prevENI: map[string]*v1beta1.PodENI{}, deliveredENI: map[string]*v1beta1.PodENI{}, removedAt: map[string]time.Time{}, passes: map[string]int{}, current: map[int]string{}, bound: map[boundKey]time.Time{}, boundEnd: map[boundKey]time.Time{}, unrefAt: map[string]time.Time{}, keptAtCreate: map[string]bool{}}
		w.main()
	})
}

func (PodWorld) Shrink(scAny any) []any {
	sc := scAny.(*Scenario)
	clone := func() *Scenario {
		b, _ := json.Marshal(sc)
		c := &Scenario{}
		_ = json.Unmarshal(b, c)
		return c
	}
	var out []any
	for i := range sc.Faults {
		c := clone()
		c.Faults = append(c.Faults[:i], c.Faults[i+1:]...)
		out = append(out, c)
	}
	if n := len(sc.Ops); n > 3 {
		c := clone()
		c.Ops = c.Ops[:n/2]
		out = append(out, c)
	}
	for i := len(sc.Ops) - 1; i >= 0; i-- {
		c := clone()
		c.Ops = append(c.Ops[:i], c.Ops[i+1:]...)
		out = append(out, c)
	}
	for i := len(sc.Cfg.Pop) - 1; i >= 0; i-- {
		c := clone()
		c.Cfg.Pop = append(c.Cfg.Pop[:i], c.Cfg.Pop[i+1:]...)
		out = append(out, c)
	}
	if sc.LatencyMs > 0 {
		c := clone()
		c.LatencyMs = 0
		out = append(out, c)
	}
	return out
}

// ---------------------------------------------------------------------------------------
// objects

func (w *World) nodeObject(name string, trunkID string) *corev1.Node {
	n := &corev1.Node{
		ObjectMeta: metav1.ObjectMeta{Name: name, UID: k8stypes.UID("uid-" + name),
			Labels: map[string]string{corev1.LabelTopologyRegion: "cn-sim", corev1.LabelInstanceTypeStable: "ecs.sim.large", corev1.LabelTopologyZone: "zone-a"}},
		Spec: corev1.NodeSpec{ProviderID: "cn-sim." + instanceOf(name)},
	}
	if trunkID != "" {
		n.Annotations = map[string]string{types.TrunkOn: trunkID}
	}
	return n
}

func (w *World) allocTypes(p *podState) []v1beta1.AllocationType {
	ttl := (time.Duration(p.spec.TTLs) * time.Second).String()
	switch p.spec.Kind {
	case "ttl":
		return []v1beta1.AllocationType{{Type: v1beta1.IPAllocTypeFixed, ReleaseStrategy: v1beta1.ReleaseStrategyTTL, ReleaseAfter: ttl}}
	case "never":
		return []v1beta1.AllocationType{{Type: v1beta1.IPAllocTypeFixed, ReleaseStrategy: v1beta1.ReleaseStrategyNever}}
	case "mixed":
		return []v1beta1.AllocationType{{Type: v1beta1.IPAllocTypeFixed, ReleaseStrategy: v1beta1.ReleaseStrategyTTL, ReleaseAfter: ttl}, {Type: v1beta1.IPAllocTypeFixed, ReleaseStrategy: v1beta1.ReleaseStrategyNever}}
	case "two":
		return []v1beta1.AllocationType{{Type: v1beta1.IPAllocTypeElastic}, {Type: v1beta1.IPAllocTypeElastic}}
	}
	return []v1beta1.AllocationType{{Type: v1beta1.IPAllocTypeElastic}}
}

func (p *podState) fixed() bool {
	return p.spec.Kind == "ttl" || p.spec.Kind == "never" || p.spec.Kind == "mixed"
}

func (w *World) podObject(p *podState) *corev1.Pod {
	pod := &corev1.Pod{
		ObjectMeta: metav1.ObjectMeta{Name: p.spec.Name, Namespace: ns, UID: k8stypes.UID(p.uid), Annotations: map[string]string{types.PodENI: "true"},
			Finalizers: []string{"sim/kubelet"}},
		Spec:   corev1.PodSpec{NodeName: p.node, Containers: []corev1.Container{{Name: "c", Image: "i"}}},
		Status: corev1.PodStatus{Phase: corev1.PodPending},
	}
	switch p.spec.Owner {
	case "sts":
		pod.OwnerReferences = []metav1.OwnerReference{{APIVersion: "apps/v1", Kind: "StatefulSet", Name: "set", UID: "uid-set"}}
	case "deploy":
		pod.OwnerReferences = []metav1.OwnerReference{{APIVersion: "apps/v1", Kind: "ReplicaSet", Name: "rs", UID: "uid-rs"}}
	}
	ats := w.allocTypes(p)
	if p.spec.Via == "pn" && len(ats) == 1 {
		pod.Annotations[types.PodNetworking] = "pn-" + p.spec.Name
	} else {
		type pnw struct {
			VSwitchOptions   []string                `json:"vSwitchOptions"`
			SecurityGroupIDs []string                `json:"securityGroupIDs"`
			Interface        string                  `json:"interface"`
			AllocationType   *v1beta1.AllocationType `json:"allocationType"`
		}
		var anno struct {
			PodNetworks []pnw `json:"podNetworks"`
		}
		for i := range ats {
			anno.PodNetworks = append(anno.PodNetworks, pnw{VSwitchOptions: []string{"vsw-1"}, SecurityGroupIDs: []string{"sg-1"}, Interface: fmt.Sprintf("eth%d", i), AllocationType: &ats[i]})
		}
		b, _ := json.Marshal(anno)
		pod.Annotations[types.PodNetworks] = string(b)
	}
	return pod
}

// ---------------------------------------------------------------------------------------
// controllers: what controller-runtime's manager, informers and work queue do for them

type keyState struct {
	wake     chan struct{}
	failures int
}

type queue struct {
	w         *World
	name      string
	gen       int
	ctx       context.Context
	keys      map[string]*keyState
	reconcile func(ctx context.Context, req reconcile.Request) (reconcile.Result, error)
}

func (w *World) newQueue(name string, fn func(ctx context.Context, req reconcile.Request) (reconcile.Result, error)) *queue {
	return &queue{w: w, name: name, gen: w.ctlGen, ctx: w.ctlCtx, keys: map[string]*keyState{}, reconcile: fn}
}

func backoffOf(failures int) time.Duration {
	d := 200 * time.Millisecond
	for i := 1; i < failures && d < 300*time.Second; i++ {
		d *= 2
	}
	return min(d, 300*time.Second)
}

// Add is an event for key: the key is reconciled (again) as soon as no reconcile of it is running.
func (q *queue) Add(name string) {
	if q.gen != q.w.ctlGen {
		return
	}
	st := q.keys[name]
	if st != nil {
		select {
		case st.wake <- struct{}{}:
		default:
		}
		return
	}
	st = &keyState{wake: make(chan struct{}, 1)}
	q.keys[name] = st
	gen, ctx := q.gen, q.ctx
	q.w.run.S.GoNamed(q.name+":"+name, 100+gen, func() {
		for {
			if gen != q.w.ctlGen {
				return
			}
			label := fmt.Sprintf("%s:%s#%d", q.name, name, q.w.passes[q.name+":"+name])
			q.w.passes[q.name+":"+name]++
			tid := q.w.run.S.CurrentTask().ID
			q.w.current[tid] = label
			q.w.onPassStart(q.name, name)
			res, err := q.reconcile(ctx, reconcile.Request{NamespacedName: k8stypes.NamespacedName{Namespace: ns, Name: name}})
			delete(q.w.current, tid)
			q.w.onPassEnd(q.name, name, label, err)
			q.w.run.S.Log("ctl", "%s -> requeue=%v after=%v err=%v", label, res.Requeue, res.RequeueAfter, err)
			if gen != q.w.ctlGen {
				return
			}
			delay := time.Duration(-1)
			switch {
			case err != nil:
				q.w.run.Probe("reconcile-error")
				st.failures++
				delay = backoffOf(st.failures)
			case res.RequeueAfter > 0:
				st.failures = 0
				delay = res.RequeueAfter
			case res.Requeue:
				st.failures++
				delay = backoffOf(st.failures)
			default:
				st.failures = 0
			}
			if delay < 0 {
				idx, _, _ := simrt.Select(false, simrt.RecvCase(st.wake), simrt.RecvCase(ctx.Done()))
				if idx == 1 {
					return
				}
				continue
			}
			t := time.NewTimer(delay)
			idx, _, _ := simrt.Select(false, simrt.RecvCase(st.wake), simrt.RecvCase(t.C), simrt.RecvCase(ctx.Done()))
			t.Stop()
			if idx == 2 {
				return
			}
		}
	})
}

// startControllers builds both reconcilers over a fresh vSwitch pool and node-status cache (what a
// controller process start does) and starts the pod-eni collection loops.
func (w *World) startControllers() {
	if w.ctlStop != nil {
		// a controller process dies: its tasks stop where they are
		w.ctlStop()
		w.run.S.Kill(100 + w.ctlGen)
	}
	w.ctlGen++
	// the idempotency tokens live in the client's memory: a new process cannot find the interface
	// of a timed-out create again
	w.cloud.timedOut = map[string]string{}
	w.api.ResetCache()
	w.deliveredENI = map[string]*v1beta1.PodENI{}
	for _, name := range sortedKeys(w.prevENI) {
		w.deliveredENI[name] = w.prevENI[name].DeepCopy()
	}
	w.ctlCtx, w.ctlStop = context.WithCancel(context.Background())
	var err error
	w.vsw, err = vswitch.NewSwitchPool(100, "10m")
	if err != nil {
		panic(err)
	}
	cache := status.NewCache[status.NodeStatus]()
	for _, n := range nodeNames {
		cache.LoadOrStore(n, status.NewNodeStatus(1))
	}
	w.podCtl = podctl.NewReconcilePodForSim(w.api.Client, w.cloud, w.vsw, w.cfg.Trunk, false)
	w.eniCtl = podeni.NewReconcilePodENIForSim(w.api.Client, w.cloud, w.cfg.Trunk, false, cache)
	w.podQ = w.newQueue("pod", w.podCtl.Reconcile)
	w.eniQ = w.newQueue("podeni", w.eniCtl.Reconcile)
	ctx := w.ctlCtx
	w.run.S.GoNamed("podeni-gc-start", 100+w.ctlGen, func() { w.eniCtl.StartGCForSim(ctx) })
	// the initial list of the informers: one event per existing object
	for _, p := range w.pods {
		if p.exists {
			w.podQ.Add(p.spec.Name)
		}
	}
	for _, name := range sortedKeys(w.prevENI) {
		w.eniQ.Add(name)
	}
}
