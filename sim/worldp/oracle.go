package worldp

import (
	"context"
	"fmt"
	"strings"
	"time"

	corev1 "k8s.io/api/core/v1"
	"sigs.k8s.io/controller-runtime/pkg/client"

	aliyunClient "github.com/AliyunContainerService/terway/pkg/aliyun/client"
	"github.com/AliyunContainerService/terway/pkg/apis/network.alibabacloud.com/v1beta1"
	podeni "github.com/AliyunContainerService/terway/pkg/controller/pod-eni"
	"github.com/AliyunContainerService/terway/pkg/utils"
	"github.com/AliyunContainerService/terway/types"

	"verif/sim/simrt"
)

// the documented machine (pkg/apis/.../types.go and the property): initial -> Bind;
// Bind -> Detaching -> Unbind -> Binding -> Bind; any -> Deleting; staying put is no move.
var edges = map[[2]v1beta1.Phase]bool{
	{v1beta1.ENIPhaseInitial, v1beta1.ENIPhaseBind}:     true,
	{v1beta1.ENIPhaseBind, v1beta1.ENIPhaseDetaching}:   true,
	{v1beta1.ENIPhaseDetaching, v1beta1.ENIPhaseUnbind}: true,
	{v1beta1.ENIPhaseUnbind, v1beta1.ENIPhaseBinding}:   true,
	{v1beta1.ENIPhaseBinding, v1beta1.ENIPhaseBind}:     true,
}

type boundKey struct{ name, uid string }

func (w *World) boundSeen(name, uid string) (time.Time, bool) {
	t, ok := w.bound[boundKey{name, uid}]
	return t, ok
}

// wasBoundSince: some version of the record was Bind for uid at or after t.
func (w *World) wasBoundSince(name, uid string, t time.Time) bool {
	k := boundKey{name, uid}
	if _, ok := w.bound[k]; !ok {
		return false
	}
	if w.boundNow(name, uid) {
		return true
	}
	end, ok := w.boundEnd[k]
	return ok && !end.Before(t)
}

func (w *World) boundNow(name, uid string) bool {
	r := w.truthENI(name)
	return r != nil && r.Status.Phase == v1beta1.ENIPhaseBind && r.Annotations[types.PodUID] == uid && r.DeletionTimestamp.IsZero()
}

func phaseName(p v1beta1.Phase) string {
	if p == "" {
		return "Initial"
	}
	return string(p)
}

// recordChanged is called after every write of a PodENI that took effect: it refreshes the mirror,
// runs the oracles that are about record transitions and delivers the event to the controller.
func (w *World) recordChanged(name string) {
	old := w.prevENI[name]
	cur := w.truthENI(name)
	now := time.Now()
	w.run.Eval()
	switch {
	case cur == nil && old != nil:
		if old.Status.Phase == v1beta1.ENIPhaseBind && old.DeletionTimestamp.IsZero() {
			w.boundEnd[boundKey{name, old.Annotations[types.PodUID]}] = now
		}
		for _, a := range old.Spec.Allocations {
			w.unrefAt[a.ENI.ID] = now
		}
		for _, p := range w.pods {
			if p.spec.Name == name {
				p.lastIPs, p.lastENIs = nil, nil // nothing is kept for the name any more
			}
		}
		delete(w.prevENI, name)
		w.removedAt[name] = now
		w.run.S.Log("record", "%s removed", name)
		w.eniEvent(name)
		return
	case cur == nil:
		return
	}
	w.prevENI[name] = cur.DeepCopy()
	w.run.S.Log("record", "%s", compactRecord(cur))
	isBound := func(r *v1beta1.PodENI) bool {
		return r != nil && r.Status.Phase == v1beta1.ENIPhaseBind && r.DeletionTimestamp.IsZero()
	}
	if isBound(cur) {
		w.bound[boundKey{name, cur.Annotations[types.PodUID]}] = now
	}
	if isBound(old) && (!isBound(cur) || old.Annotations[types.PodUID] != cur.Annotations[types.PodUID]) {
		w.boundEnd[boundKey{name, old.Annotations[types.PodUID]}] = now
	}
	if old == nil || old.UID != cur.UID {
		if cur.Status.Phase != v1beta1.ENIPhaseInitial {
			w.run.Violate("C10", "phases", "record-created-in-phase-"+phaseName(cur.Status.Phase), "record %s was created in phase %s", name, cur.Status.Phase)
		}
		w.eniEvent(name)
		return
	}
	// ---- C10 O1: phase transitions
	from, to := old.Status.Phase, cur.Status.Phase
	if from != to && to != v1beta1.ENIPhaseDeleting && !edges[[2]v1beta1.Phase{from, to}] {
		w.run.Violate("C10", "phases", "undocumented-transition-"+phaseName(from)+"-to-"+phaseName(to), "record %s moved from %s to %s (pod uid in record %s)", name, phaseName(from), phaseName(to), cur.Annotations[types.PodUID])
	}
	// ---- C11 O2: a record with a fixed allocation is given up only by its release strategy
	givenUp := (to == v1beta1.ENIPhaseDeleting && from != v1beta1.ENIPhaseDeleting) || (!cur.DeletionTimestamp.IsZero() && old.DeletionTimestamp.IsZero() && from != v1beta1.ENIPhaseDeleting)
	if givenUp && old.Spec.HaveFixedIP() {
		w.checkFixedGivenUp(name, old, now)
	}
	if cur.ResourceVersion != old.ResourceVersion && podeni.UpdateEventPassesForSim(old, cur) {
		w.eniEvent(name)
	}
}

// eniEvent: without the cache model the controller's event fires with the write.
func (w *World) eniEvent(name string) {
	if w.cfg.CacheLagMs > 0 {
		return
	}
	w.eniQ.Add(name)
}

func (w *World) checkFixedGivenUp(name string, old *v1beta1.PodENI, now time.Time) {
	var p *podState
	for _, x := range w.pods {
		if x.spec.Name == name {
			p = x
		}
	}
	for _, a := range old.Spec.Allocations {
		if a.AllocationType.Type != v1beta1.IPAllocTypeFixed {
			continue
		}
		switch a.AllocationType.ReleaseStrategy {
		case v1beta1.ReleaseStrategyNever:
			w.run.Violate("C11", "release-strategy", "never-released-record-given-up", "record %s holds interface %s with release strategy Never and was given up (phase %s)", name, a.ENI.ID, phaseName(old.Status.Phase))
			return
		case v1beta1.ReleaseStrategyTTL:
			ttl, err := time.ParseDuration(a.AllocationType.ReleaseAfter)
			if err != nil {
				continue
			}
			if seen := old.Status.PodLastSeen.Time; now.Before(seen.Add(ttl)) {
				w.run.Violate("C11", "release-strategy", "fixed-record-given-up-before-ttl", "record %s (interface %s, ttl %s) was given up %s after the controller last saw the pod (podLastSeen %s)", name, a.ENI.ID, ttl, now.Sub(seen).Round(time.Millisecond), seen.Format("15:04:05"))
				return
			}
			// the harness's own reading of "last observed" (fault-free runs): the collection loop looks
			// at every record at least every 2.1 min, so it saw the pod in the 200 s before it vanished
			if w.sc.Strict && p != nil && !p.doneAt.IsZero() && p.doneAt.Sub(p.created) > 5*time.Minute && now.Before(p.doneAt.Add(-200*time.Second).Add(ttl)) && (!p.exists || p.exited) && old.Annotations[types.PodUID] == p.uid {
				w.run.Violate("C11", "release-strategy", "fixed-record-given-up-before-ttl@since-last-observation", "record %s (ttl %s) was given up %s after the pod exited or vanished; without faults the controller observed the pod in the 200 s before that", name, ttl, now.Sub(p.doneAt).Round(time.Millisecond))
				return
			}
			if p != nil && p.exists && !p.exited && now.Sub(p.created) > 3*time.Minute {
				w.run.Violate("C11", "release-strategy", "fixed-record-given-up-while-pod-exists", "record %s (ttl %s) was given up although pod %s (uid %s) has existed for %s", name, ttl, name, p.uid, now.Sub(p.created).Round(time.Second))
				return
			}
		}
	}
}

func compactRecord(r *v1beta1.PodENI) string {
	var b strings.Builder
	fmt.Fprintf(&b, "%s phase=%s uid=%s", r.Name, phaseName(r.Status.Phase), r.Annotations[types.PodUID])
	if !r.DeletionTimestamp.IsZero() {
		b.WriteString(" deleting")
	}
	for _, a := range r.Spec.Allocations {
		fmt.Fprintf(&b, " %s/%s/%s", a.ENI.ID, a.IPv4, a.AllocationType.Type)
	}
	if !r.Status.PodLastSeen.IsZero() {
		fmt.Fprintf(&b, " seen=%s", r.Status.PodLastSeen.Format("15:04:05"))
	}
	if r.Status.InstanceID != "" {
		fmt.Fprintf(&b, " on=%s", r.Status.InstanceID)
	}
	return b.String()
}

func (w *World) onPassStart(queue, name string) {}

// onPassEnd: C10 "when creation fails partway, every interface already created is deleted, so no
// interface exists without a record" - judged when the pod controller's pass returns: what the
// pass created is recorded, or gone, or its rollback delete was attempted and failed, or the
// create call itself reported failure (the controller never learnt the id).
func (w *World) onPassEnd(queue, name, label string, err error) {
	if queue != "pod" {
		return
	}
	w.run.Eval()
	for _, id := range w.cloud.order {
		e := w.cloud.enis[id]
		if e == nil || e.CreatedIn != label {
			continue
		}
		if len(w.referencedBy(id)) > 0 || w.cloud.deleteFailed[id] || w.cloud.orphanOfFailedCreate(id) {
			continue
		}
		w.run.Violate("C10", "rollback", "created-interface-neither-recorded-nor-rolled-back", "interface %s was created by %s, which returned (err=%v) leaving it without a record and without an attempt to delete it", id, label, err)
	}
}

// referencedBy returns the records (API truth) that list the interface.
func (w *World) referencedBy(eniID string) []*v1beta1.PodENI {
	l := &v1beta1.PodENIList{}
	if err := w.api.Inner.List(context.Background(), l, client.InNamespace(ns)); err != nil {
		return nil
	}
	var out []*v1beta1.PodENI
	for i := range l.Items {
		for _, a := range l.Items[i].Spec.Allocations {
			if a.ENI.ID == eniID {
				out = append(out, &l.Items[i])
			}
		}
	}
	return out
}

func (w *World) liveWithUID(name, uid string) bool {
	pod := w.truthPod(name)
	return pod != nil && string(pod.UID) == uid && !utils.PodSandboxExited(pod)
}

func (w *World) onAttach(e *cENI, inst, trunk string) {}

// onRemoval judges every DetachNetworkInterface / DeleteNetworkInterface at call time.
func (w *World) onRemoval(kind, eniID string) {
	w.run.Eval()
	e := w.cloud.enis[eniID]
	if e == nil {
		return // nothing there: no effect
	}
	if kind == "detach" && e.Instance == "" {
		return // not attached: no effect
	}
	refs := w.referencedBy(eniID)
	pass := w.currentPass()
	// ---- C10 O2: never from under a running pod instance
	for _, r := range refs {
		uid := r.Annotations[types.PodUID]
		if _, was := w.boundSeen(r.Name, uid); !was {
			continue // the record never reached Bind for this pod instance: the pod does not hold the interface
		}
		if uid != "" && w.liveWithUID(r.Name, uid) {
			w.run.Violate("C10", "pull", "interface-pulled-from-live-pod", "%s of %s (record %s, phase %s) while pod %s with uid %s is running [caller %s]", kind, eniID, r.Name, phaseName(r.Status.Phase), r.Name, uid, passOrGC(pass))
		}
	}
	switch {
	case strings.HasPrefix(pass, "podeni:"):
		// the record being reconciled must list the interface and be on its way out or to Unbind
		key := strings.TrimPrefix(pass[:strings.Index(pass, "#")], "podeni:")
		ok := false
		for _, r := range refs {
			if r.Name == key && (r.Status.Phase == v1beta1.ENIPhaseDetaching || !r.DeletionTimestamp.IsZero()) {
				ok = true
			}
		}
		if !ok {
			w.run.Violate("C10", "pull", "interface-removed-outside-state-machine", "%s of %s by the reconcile of record %s, which does not list it in phase Detaching or under deletion (records listing it: %s)", kind, eniID, key, recNames(refs))
		}
	case strings.HasPrefix(pass, "pod:"):
		// rollback of a failed creation: only what no record lists
		if len(refs) > 0 {
			// the record's creation reported failure after it took effect: the interfaces are rolled
			// back as the property demands, the record stays behind (counted, not a listed property)
			w.run.Probe("rollback-under-a-record-that-exists")
		}
		if !e.ByCtrl {
			w.run.Violate("C10", "pull", "rollback-removed-foreign-interface", "%s of %s by the pod controller; it was not created in this run", kind, eniID)
		}
	default:
		// ---- C11 O3: the leak collector
		// the API reports the creation time in whole seconds: that is the age the collector can know
		age := time.Since(e.Created.Truncate(time.Second))
		switch {
		case !isOurs(e):
			w.run.Violate("C11", "leak-gc", "collector-touched-foreign-interface", "%s of %s whose tags are %v", kind, eniID, e.Tags)
		case age < 10*time.Minute:
			w.run.Violate("C11", "leak-gc", "collector-touched-young-interface", "%s of %s created %s ago (grace period 10 min)", kind, eniID, age.Round(time.Millisecond))
		case len(refs) > 0:
			fp := "collector-touched-referenced-interface"
			if t, ok := w.cloud.adoptedAt[eniID]; ok && time.Since(t) < 10*time.Second+time.Duration(w.cfg.CacheLagMs)*time.Millisecond {
				// K10: the orphan of a timed-out create, older than the grace period, was handed to a
				// retry through the idempotency token and recorded moments before the collector,
				// which had decided (or reads a cache that has not seen the record yet), deleted it
				fp += "@adopted-through-token-moments-ago"
			}
			w.run.Violate("C11", "leak-gc", fp, "%s of %s which record(s) %s list", kind, eniID, recNames(refs))
		default:
			w.run.Probe("leak-collected")
		}
	}
}

func passOrGC(p string) string {
	if p == "" {
		return "collection loop"
	}
	return p
}

func recNames(rs []*v1beta1.PodENI) string {
	var n []string
	for _, r := range rs {
		n = append(n, r.Name+"/"+phaseName(r.Status.Phase))
	}
	if len(n) == 0 {
		return "none"
	}
	return strings.Join(n, ",")
}

// settle: faults stop; after the collection periods have passed the books must balance.
func (w *World) settle() {
	w.faultsOn = false
	if w.sc.SettleS <= 0 {
		return
	}
	// a hung attach is a fault too: it completes now
	for _, id := range w.cloud.order {
		if e := w.cloud.enis[id]; e != nil && e.NeverUp {
			e.NeverUp = false
			e.ReadyAt = time.Now().Add(2 * time.Second)
		}
	}
	// every key gets one more event, as a periodic resync of the informers would deliver
	for _, p := range w.pods {
		if p.exists {
			w.podQ.Add(p.spec.Name)
		}
	}
	for _, n := range sortedKeys(w.prevENI) {
		w.eniQ.Add(n)
	}
	simrt.Sleep(time.Duration(w.sc.SettleS) * time.Second)
	for i := 0; i < 60 && w.cloud.inflight > 0; i++ {
		simrt.Sleep(5 * time.Second)
	}
	w.run.Eval()
	settled := time.Duration(w.sc.SettleS) * time.Second
	for _, p := range w.pods {
		rec := w.truthENI(p.spec.Name)
		gone := time.Since(p.goneAt)
		switch {
		case p.exists && !p.exited:
			// C10 liveness: a running pod ends up with a bound record of its own
			if time.Since(p.created) > 10*time.Minute && (rec == nil || rec.Status.Phase != v1beta1.ENIPhaseBind || rec.Annotations[types.PodUID] != p.uid) {
				got := "none"
				if rec != nil {
					got = compactRecord(rec)
				}
				// not stated by C10 (it has no liveness clause for binding): counted only
				w.run.Probe("running-pod-without-bound-record")
				w.run.S.Log("note", "pod %s (uid %s, %s) has existed for %s; record: %s", p.spec.Name, p.uid, p.spec.Kind, time.Since(p.created).Round(time.Second), got)
			}
		case !p.exists && !p.goneAt.IsZero() && !p.fixed():
			// C10: a deleted pod without fixed IP: interface detached and deleted, record gone
			if rec != nil && gone > 10*time.Minute {
				w.run.Violate("C10", "liveness", "record-of-deleted-pod-remains", "pod %s vanished %s ago; record: %s", p.spec.Name, gone.Round(time.Second), compactRecord(rec))
			}
		case !p.exists && !p.goneAt.IsZero() && (p.spec.Kind == "never" || p.spec.Kind == "mixed"):
			if rec == nil && len(p.lastIPs) > 0 && w.removedAt[p.spec.Name].After(p.goneAt) {
				w.run.Violate("C11", "release-strategy", "never-released-record-gone", "pod %s (strategy Never) vanished %s ago and its record is gone", p.spec.Name, gone.Round(time.Second))
			}
		}
	}
	// C11: a fixed-IP pod recreated under its name is bound again to the record that was kept
	for _, p := range w.pods {
		if !p.exists || p.exited || !p.fixed() || p.spec.Owner == "deploy" || p.uidGen < 2 || time.Since(p.created) < 15*time.Minute || !w.keptAtCreate[p.uid] {
			continue
		}
		rec := w.truthENI(p.spec.Name)
		if rec == nil || rec.Status.Phase != v1beta1.ENIPhaseBind || rec.Annotations[types.PodUID] != p.uid {
			got := "none"
			if rec != nil {
				got = compactRecord(rec)
			}
			fp := "recreated-pod-not-rebound"
			if rec != nil && rec.Status.Phase == v1beta1.ENIPhaseBinding {
				for _, a := range rec.Spec.Allocations {
					if e := w.cloud.enis[a.ENI.ID]; e != nil && e.Instance != "" && e.Instance != instanceOf(p.node) {
						// K9: an earlier attach (for a pod instance on another node) went through, its
						// status write did not; nobody detaches the interface from that node any more
						fp += "@interface-left-attached-to-another-node"
						break
					}
				}
			}
			w.run.Violate("C11", "fixed-ip", fp, "fixed-IP pod %s was recreated (uid %s) %s ago while its record was kept, %s after faults stopped it is not bound to it; record: %s", p.spec.Name, p.uid, time.Since(p.created).Round(time.Second), settled, got)
		}
	}
	// C10 conservation: no interface of ours without a record (the leak collector has had the time)
	{
		settleStart := time.Now().Add(-settled)
		for _, id := range w.cloud.order {
			e := w.cloud.enis[id]
			if e == nil || !isOurs(e) || e.Type == aliyunClient.ENITypeTrunk {
				continue
			}
			if len(w.referencedBy(id)) > 0 {
				continue
			}
			// the collector needs the interface to be past its grace period and unreferenced, then
			// one pass to detach a member and one to delete it (a third for a pass that had started)
			eligible := e.Created.Add(10 * time.Minute)
			for _, t := range []time.Time{w.unrefAt[id], settleStart} {
				if t.After(eligible) {
					eligible = t
				}
			}
			passes := 0
			for _, t := range w.leakTicks {
				if t.After(eligible) {
					passes++
				}
			}
			if passes < 3 {
				continue
			}
			w.run.Violate("C10", "conservation", "interface-without-record", "interface %s (status %s, created %s ago, by this run: %v) carries the controller's tags and no record lists it, %s after faults stopped", id, e.Status, time.Since(e.Created).Round(time.Second), e.ByCtrl, settled)
		}
	}
}

var _ = corev1.PodRunning
