package worldn

import (
	"fmt"
	"net/netip"
	"sort"
	"strings"
	"time"

	"verif/sim/simrt"
)

// settle is the quiet phase at the end of a run: faults off, no new requests, fake time
// advanced past the longest back-off; then the quiescence oracles (C07, C09) are evaluated.
func (w *World) settle() {
	w.faultsOn = false
	if w.sc.SettleS <= 0 {
		return
	}
	w.sleep(time.Duration(w.sc.SettleS) * time.Second)
	if w.crashPending {
		return
	}
	for i := 0; i < 60 && w.cloud.inflight > 0; i++ {
		simrt.Sleep(10 * time.Second)
	}
	switch w.sc.Profile {
	case "C09":
		w.gcOracle()
	case "C07":
		w.agreementOracle()
	default:
		w.agreementOracle()
	}
}

type trackedENI struct {
	id, status, typ string
	ips             map[string][2]string // ip -> (owner, status)
}

func (w *World) tracked() map[string]*trackedENI {
	out := map[string]*trackedENI{}
	for _, s := range w.poolStatus() {
		if s.NetworkInterfaceID == "" {
			continue
		}
		t := &trackedENI{id: s.NetworkInterfaceID, status: s.Status, typ: s.Type, ips: map[string][2]string{}}
		for _, u := range s.Usage {
			if len(u) >= 3 {
				t.ips[u[0]] = [2]string{u[1], u[2]}
			}
		}
		out[t.id] = t
	}
	return out
}

func sortedKeys[V any](m map[string]V) []string {
	ks := make([]string, 0, len(m))
	for k := range m {
		ks = append(ks, k)
	}
	sort.Strings(ks)
	return ks
}

// agreementOracle is C07: at a quiescent point pool and cloud agree.
func (w *World) agreementOracle() {
	// quiescent: nothing in flight at the factory seam and two consecutive snapshots of the
	// pool, five fake minutes apart (longer than a balancer period), are identical
	var tr map[string]*trackedENI
	stable := false
	prev := ""
	for i := 0; i < 10; i++ {
		tr = w.tracked()
		cur := w.describe(tr)
		if w.cloud.inflight == 0 && cur == prev {
			stable = true
			break
		}
		prev = cur
		simrt.Sleep(300 * time.Second)
	}
	w.run.Eval()
	if !stable {
		w.run.Violate("C07", "liveness", "pool-never-quiescent", "pool still changing %d fake seconds after faults stopped: %s", w.sc.SettleS+10*300, prev)
		return
	}
	w.run.Probe("settle-quiescent")
	// 1. interfaces
	cloudIDs := map[string]bool{}
	for id, e := range w.cloud.enis {
		if e.Attached {
			cloudIDs[id] = true
		}
	}
	for _, id := range sortedKeys(tr) {
		if !cloudIDs[id] {
			w.run.Violate("C07", "agreement", "pool-tracks-unknown-interface", "pool tracks %s which the cloud does not have attached", id)
		}
	}
	for _, id := range sortedKeys(cloudIDs) {
		if tr[id] == nil {
			what := "pre-attached"
			if w.cloud.enis[id].ByDaemon {
				what = "created for the daemon"
			}
			w.run.Violate("C07", "agreement", "cloud-interface-untracked", "interface %s (%s) is attached in the cloud but not tracked by the pool (orphan)", id, what)
		}
	}
	// 2. addresses
	for _, id := range sortedKeys(tr) {
		e := w.cloud.enis[id]
		if e == nil {
			continue
		}
		t := tr[id]
		if t.status != "InUse" {
			w.run.Violate("C07", "agreement", "interface-not-in-use-at-quiescence", "interface %s is in pool status %s at quiescence", id, t.status)
		}
		cl := map[string]bool{}
		if w.cfg.v4() {
			for _, ip := range e.V4 {
				cl[ip.String()] = true
			}
		}
		if w.cfg.v6() {
			for _, ip := range e.V6 {
				cl[ip.String()] = true
			}
		}
		for _, ip := range sortedKeys(t.ips) {
			if a, _ := netip.ParseAddr(ip); (a.Is4() && !w.cfg.v4()) || (a.Is6() && !w.cfg.v6()) {
				continue // a family the node does not use (the primary IPv4 address of an IPv6-only node)
			}
			if !cl[ip] {
				w.run.Violate("C07", "agreement", "pool-tracks-unknown-address", "pool tracks %s on %s (%v) which the cloud does not list", ip, id, t.ips[ip])
			} else if st := t.ips[ip][1]; st != "Valid" {
				w.run.Violate("C07", "agreement", "address-not-valid-at-quiescence", "address %s on %s is %s at quiescence", ip, id, st)
			}
		}
		for _, ip := range sortedKeys(cl) {
			if _, ok := t.ips[ip]; !ok {
				w.run.Violate("C07", "agreement", "cloud-address-untracked", "cloud lists %s on %s but the pool does not track it (orphan)", ip, id)
			}
		}
	}
	// 3. owners hold something
	for _, id := range sortedKeys(tr) {
		for _, ip := range sortedKeys(tr[id].ips) {
			owner := tr[id].ips[ip][0]
			if owner == "" {
				continue
			}
			name := strings.TrimPrefix(owner, ns+"/")
			var p *podState
			for _, q := range w.pods {
				if q.spec.Name == name {
					p = q
				}
			}
			_, hasRec := w.storedRecordByName(name)
			live := p != nil && p.sbReady && (p.liveV4 == ip || p.liveV6 == ip)
			if !hasRec && !live {
				w.run.Violate("C07", "ownership", "owned-address-without-holder", "address %s on %s is owned by %s which has neither a stored record nor a live sandbox", ip, id, owner)
			}
		}
	}
	// 4. watermarks
	idle, inuse := 0, 0
	for _, t := range tr {
		if t.status != "InUse" || t.typ == "erdma" && false {
			continue
		}
		for ip, o := range t.ips {
			a, _ := netip.ParseAddr(ip)
			if a.Is4() != w.cfg.v4() {
				continue // the balancer counts the IPv4 family when it is enabled, IPv6 otherwise
			}
			if o[0] == "" {
				idle++
			} else {
				inuse++
			}
		}
	}
	// preheating only uses ordinary interfaces: RDMA slots do not count towards what the reserve can reach
	capacity := (w.cfg.MaxENI - w.cfg.ERDMA) * w.cfg.IPPerENI
	w.run.S.Log("settle", "idle=%d inuse=%d min=%d max=%d cap=%d", idle, inuse, w.cfg.MinIdle, w.cfg.MaxIdle, capacity)
	if idle < w.cfg.MinIdle && idle+inuse < capacity && w.canGrow(tr) {
		w.run.Violate("C07", "watermark", "idle-below-min", "idle=%d below min=%d with %d of capacity %d used, %d fake seconds after faults stopped", idle, w.cfg.MinIdle, idle+inuse, capacity, w.sc.SettleS)
	}
	if idle > w.cfg.MaxIdle {
		// an interface's primary address cannot be unassigned; an interface is only removed when all of it is idle
		w.run.Probe("idle-above-max")
		if over := idle - w.cfg.MaxIdle; !w.cfg.v4() || over > w.primariesIdle(tr) {
			w.run.Violate("C07", "watermark", "idle-above-max@"+w.cfg.Stack, "idle=%d above max=%d by more than the idle primary addresses (%d), %d fake seconds after faults stopped", idle, w.cfg.MaxIdle, w.primariesIdle(tr), w.sc.SettleS)
		}
	}
}

// canGrow tells whether a preheating request (one address of every enabled family on one
// interface) can be placed: a free interface slot, or an ordinary interface with room in
// every enabled family.
func (w *World) canGrow(tr map[string]*trackedENI) bool {
	ordinary := 0
	for _, t := range tr {
		if t.typ == "erdma" {
			continue
		}
		ordinary++
		n4, n6 := 0, 0
		for ip := range t.ips {
			if a, _ := netip.ParseAddr(ip); a.Is4() {
				n4++
			} else {
				n6++
			}
		}
		if (!w.cfg.v4() || n4 < w.cfg.IPPerENI) && (!w.cfg.v6() || n6 < w.cfg.IPPerENI) {
			return true
		}
	}
	return ordinary < w.cfg.MaxENI-w.cfg.ERDMA
}

func (w *World) primariesIdle(tr map[string]*trackedENI) int {
	n := 0
	for id, t := range tr {
		e := w.cloud.enis[id]
		if e == nil {
			continue
		}
		if o, ok := t.ips[e.Primary.String()]; ok && o[0] == "" {
			n++
		}
	}
	return n
}

func (w *World) describe(tr map[string]*trackedENI) string {
	var b strings.Builder
	for _, id := range sortedKeys(tr) {
		t := tr[id]
		fmt.Fprintf(&b, "%s[%s]:", id, t.status)
		for _, ip := range sortedKeys(t.ips) {
			fmt.Fprintf(&b, "%s=%s/%s ", ip, t.ips[ip][0], t.ips[ip][1])
		}
	}
	return b.String()
}

func (w *World) storedRecordByName(name string) (any, bool) {
	obj, err := w.resDB.Get(ns + "/" + name)
	if err != nil {
		return nil, false
	}
	return obj, true
}

// gcOracle is the end-of-run part of C09: two healthy passes collect exactly the vanished
// pods, a third changes nothing.
func (w *World) gcOracle() {
	w.directGC()
	w.directGC()
	w.run.Eval()
	st := w.poolStatus()
	for _, p := range w.pods {
		_, hasRec := w.storedRecord(p)
		owned := ownedBy(st, ns+"/"+p.spec.Name)
		if !p.exists {
			if hasRec || len(owned) > 0 {
				w.run.Violate("C09", "collect", "vanished-pod-not-collected", "pod %s no longer exists but after two healthy GC passes record=%v owned=%v", p.spec.Name, hasRec, owned)
			}
		} else if p.recCID != "" && p.held {
			if !hasRec || len(owned) == 0 {
				w.run.Violate("C09", "preserve", "existing-pod-collected", "pod %s exists and holds %s/%s but after GC record=%v owned=%v", p.spec.Name, p.recV4, p.recV6, hasRec, owned)
			}
		}
	}
	before := w.gcSnapshot()
	w.directGC()
	after := w.gcSnapshot()
	if before != after {
		w.run.Violate("C09", "idempotent", "gc-pass-not-idempotent", "a further GC pass changed state:\nbefore %s\nafter  %s", before, after)
	}
	w.run.Probe("gc-oracle")
}

func (w *World) gcSnapshot() string {
	var b strings.Builder
	for _, p := range w.pods {
		v := w.viewPod(p)
		fmt.Fprintf(&b, "%s:%s;", p.spec.Name, v)
	}
	return b.String()
}
