package worldn

import (
	"fmt"
	"net/netip"
	"sort"
	"strings"
	"time"

	"github.com/AliyunContainerService/terway/pkg/factory"
	"github.com/AliyunContainerService/terway/types/daemon"

	"verif/sim/kit"
	"verif/sim/simrt"
)

// cloudENI is the simulated cloud's truth about one secondary interface of the node.
type cloudENI struct {
	ID, MAC   string
	Type      string // secondary | trunk | erdma
	Attached  bool
	Primary   netip.Addr
	V4        []netip.Addr // includes the primary
	V6        []netip.Addr
	ByDaemon  bool // created through a daemon request (conservation oracle)
	CreatedAt int
}

func (e *cloudENI) has4(ip netip.Addr) bool {
	for _, x := range e.V4 {
		if x == ip {
			return true
		}
	}
	return false
}

func (e *cloudENI) has6(ip netip.Addr) bool {
	for _, x := range e.V6 {
		if x == ip {
			return true
		}
	}
	return false
}

// ipHist is the provenance record of one address (oracle C01.2).
type ipHist struct {
	eni           string
	assignedSeq   int // last time the cloud assigned it
	unassignedSeq int // last successful UnAssign effect requested by the daemon (0: never since assignment)
	omittedSeq    int // first LoadNetworkInterface answer since assignment that omitted it
	remoteGoneSeq int // removed remotely (drift)
	assignCount   int // how many times the cloud has handed this address out during the run
}

// recycled tells whether the cloud handed the address out more than once in this run.
func (c *Cloud) recycled(ip string) bool {
	a, err := netip.ParseAddr(ip)
	if err != nil {
		return false
	}
	h := c.hist[a]
	return h != nil && h.assignCount > 1
}

func (c *Cloud) newHist(ip netip.Addr, eni string) {
	n := 0
	if h := c.hist[ip]; h != nil {
		n = h.assignCount
	}
	c.hist[ip] = &ipHist{eni: eni, assignedSeq: c.w.run.S.SeqNo(), assignCount: n + 1}
}

// Cloud is the node-level SimCloud behind factory.Factory.
type Cloud struct {
	w       *World
	enis    map[string]*cloudENI
	order   []string
	nextENI int
	used4   map[netip.Addr]bool
	used6   map[netip.Addr]bool
	hist    map[netip.Addr]*ipHist
	// deleted ENIs / addresses handed back by the daemon (conservation)
	everCreated map[string]bool
	idByMAC     map[string]string
	creating    int
	inflight    int
	calls       map[string]int
}

var (
	cidr4 = netip.MustParsePrefix("10.0.0.0/16")
	gw4   = netip.MustParseAddr("10.0.255.253")
	cidr6 = netip.MustParsePrefix("fd00:db8::/64")
	gw6   = netip.MustParseAddr("fd00:db8::ffff:ffff:ffff:fffd")
)

func newCloud(w *World) *Cloud {
	return &Cloud{w: w, enis: map[string]*cloudENI{}, used4: map[netip.Addr]bool{}, used6: map[netip.Addr]bool{},
		hist: map[netip.Addr]*ipHist{}, everCreated: map[string]bool{}, idByMAC: map[string]string{}, calls: map[string]int{}}
}

func (c *Cloud) alloc4(eni string) netip.Addr {
	ip := netip.MustParseAddr("10.0.0.10")
	for c.used4[ip] || (!c.w.cfg.Recycle && c.hist[ip] != nil) {
		ip = ip.Next()
	}
	c.used4[ip] = true
	c.newHist(ip, eni)
	return ip
}

func (c *Cloud) alloc6(eni string) netip.Addr {
	ip := netip.MustParseAddr("fd00:db8::10")
	for c.used6[ip] || (!c.w.cfg.Recycle && c.hist[ip] != nil) {
		ip = ip.Next()
	}
	c.used6[ip] = true
	c.newHist(ip, eni)
	return ip
}

func (c *Cloud) newENI(typ string, v4, v6 int, byDaemon bool) *cloudENI {
	c.nextENI++
	id := fmt.Sprintf("eni-%02d", c.nextENI)
	e := &cloudENI{ID: id, MAC: fmt.Sprintf("00:16:3e:00:00:%02x", c.nextENI), Type: typ, Attached: true, ByDaemon: byDaemon}
	if v4 < 1 {
		v4 = 1 // an interface always has a primary address
	}
	for i := 0; i < v4; i++ {
		e.V4 = append(e.V4, c.alloc4(id))
	}
	e.Primary = e.V4[0]
	for i := 0; i < v6; i++ {
		e.V6 = append(e.V6, c.alloc6(id))
	}
	c.enis[id] = e
	c.idByMAC[e.MAC] = id
	c.order = append(c.order, id)
	c.everCreated[id] = true
	return e
}

func (c *Cloud) toDaemonENI(e *cloudENI, preferTrunk string) *daemon.ENI {
	d := &daemon.ENI{ID: e.ID, MAC: e.MAC, VSwitchID: "vsw-1", ERdma: e.Type == "erdma"}
	d.Trunk = e.Type == "trunk" && (preferTrunk == "" || preferTrunk == e.ID)
	d.PrimaryIP.SetIP(e.Primary.String())
	if c.w.cfg.v4() {
		d.GatewayIP.SetIP(gw4.String())
		d.VSwitchCIDR.SetIPNet(cidr4.String())
	}
	if c.w.cfg.v6() {
		d.GatewayIP.SetIP(gw6.String())
		d.VSwitchCIDR.SetIPNet(cidr6.String())
	}
	return d
}

func (c *Cloud) byMAC(mac string) *cloudENI {
	for _, id := range c.order {
		if e := c.enis[id]; e != nil && e.MAC == mac {
			return e
		}
	}
	return nil
}

func (c *Cloud) attachedCount() int {
	n := 0
	for _, e := range c.enis {
		if e.Attached {
			n++
		}
	}
	return n
}

func (c *Cloud) removeIP(e *cloudENI, ip netip.Addr, byDaemon bool) bool {
	seq := c.w.run.S.SeqNo()
	rm := func(list []netip.Addr) ([]netip.Addr, bool) {
		for i, x := range list {
			if x == ip {
				return append(append([]netip.Addr{}, list[:i]...), list[i+1:]...), true
			}
		}
		return list, false
	}
	var ok bool
	if ip.Is4() {
		e.V4, ok = rm(e.V4)
		if ok {
			delete(c.used4, ip)
		}
	} else {
		e.V6, ok = rm(e.V6)
		if ok {
			delete(c.used6, ip)
		}
	}
	if ok {
		if h := c.hist[ip]; h != nil {
			if byDaemon {
				h.unassignedSeq = seq
			} else {
				h.remoteGoneSeq = seq
			}
		}
		if !byDaemon {
			// an address taken away remotely does not come back during the run (somebody
			// else has it now); addresses the daemon released are reused freely
			if ip.Is4() {
				c.used4[ip] = true
			} else {
				c.used6[ip] = true
			}
		}
	}
	return ok
}

// ---------------------------------------------------------------------------------------
// factory.Factory front-end

type simFactory struct {
	c   *Cloud
	gen int
}

var _ factory.Factory = &simFactory{}

func (f *simFactory) enter(site string, detail string) (fault string) {
	w := f.c.w
	simrt.Yield("factory." + site)
	w.seamEvent("factory." + site + " call")
	w.run.S.Log("factory", "%s %s", site, detail)
	f.c.calls[site]++
	f.c.inflight++
	fault = w.faultAt(site)
	if lat := w.cfg.CallLatencyMs; lat > 0 {
		simrt.Sleep(time.Duration(lat) * time.Millisecond)
	}
	if fault == "slow" {
		w.run.Fault("cloud.slow")
		simrt.Sleep(30*time.Second + time.Duration(w.cfg.CallLatencyMs)*time.Millisecond)
		fault = ""
	}
	return fault
}

func (f *simFactory) leave(site string, detail string) {
	f.c.inflight--
	f.c.w.seamEvent("factory." + site + " return")
	f.c.w.run.S.Log("factory", "%s -> %s", site, detail)
}

func errOf(kind string) error {
	switch kind {
	case "before-limit":
		return kit.CloudErr("EniPerInstanceLimitExceeded", "injected")
	case "before-vsw":
		return kit.CloudErr("InvalidVSwitchId.IpNotEnough", "injected")
	case "before-quota":
		return kit.CloudErr("QuotaExceeded.PrivateIpAddress", "injected")
	}
	return kit.CloudErr("InternalError", "injected "+kind)
}

func (f *simFactory) CreateNetworkInterface(ipv4, ipv6 int, eniType string) (*daemon.ENI, []netip.Addr, []netip.Addr, error) {
	c, w := f.c, f.c.w
	c.creating++
	fault := f.enter("create", fmt.Sprintf("v4=%d v6=%d type=%s", ipv4, ipv6, eniType))
	defer func() { c.creating-- }()
	// C06: interface quota and per-interface address limit, against the cloud at call time
	w.run.Eval()
	if n := c.attachedCount() + c.creating; n > w.cfg.MaxENI {
		w.run.Violate("C06", "quota", "create-over-max-eni", "CreateNetworkInterface with %d interfaces attached/creating, quota %d", n, w.cfg.MaxENI)
	}
	if ipv4 > w.cfg.IPPerENI || ipv6 > w.cfg.IPPerENI {
		w.run.Violate("C06", "quota", "create-over-ip-per-eni", "CreateNetworkInterface asks v4=%d v6=%d, per-interface limit %d", ipv4, ipv6, w.cfg.IPPerENI)
	}
	if (!w.cfg.v4() && ipv4 > 1) || (!w.cfg.v6() && ipv6 > 0) {
		w.run.Violate("C06", "quota", "create-disabled-family", "CreateNetworkInterface asks v4=%d v6=%d on stack %s", ipv4, ipv6, w.cfg.Stack)
	}
	switch fault {
	case "before", "before-limit", "before-vsw", "before-quota":
		w.run.Fault("cloud.create." + fault)
		f.leave("create", "err "+fault)
		return nil, nil, nil, errOf(fault)
	}
	typ := strings.ToLower(eniType)
	e := c.newENI(typ, ipv4, ipv6, true)
	e.CreatedAt = w.run.S.SeqNo()
	d := c.toDaemonENI(e, "")
	d.Trunk = typ == "trunk"
	switch fault {
	case "after-eni":
		w.run.Fault("cloud.create.after-eni")
		f.leave("create", "err after effect (eni only) "+e.ID)
		return d, nil, nil, errOf(fault)
	case "after-all":
		w.run.Fault("cloud.create.after-all")
		f.leave("create", "err after effect (all) "+e.ID)
		return d, append([]netip.Addr{}, e.V4...), append([]netip.Addr{}, e.V6...), errOf(fault)
	}
	f.leave("create", fmt.Sprintf("%s v4=%v v6=%v", e.ID, e.V4, e.V6))
	return d, append([]netip.Addr{}, e.V4...), append([]netip.Addr{}, e.V6...), nil
}

func (f *simFactory) assign(site string, eniID string, count int, v6 bool) ([]netip.Addr, error) {
	c, w := f.c, f.c.w
	fault := f.enter(site, fmt.Sprintf("%s n=%d", eniID, count))
	e := c.enis[eniID]
	w.run.Eval()
	if e == nil || !e.Attached {
		// asking for addresses on an interface that is gone: legal, the cloud refuses
		f.leave(site, "err eni not found")
		return nil, kit.CloudErr("InvalidEniId.NotFound", "no such eni")
	}
	have := len(e.V4)
	if v6 {
		have = len(e.V6)
	}
	if have+count > w.cfg.IPPerENI {
		w.run.Violate("C06", "quota", site+"-over-ip-per-eni", "%s on %s: %d present + %d requested > limit %d", site, eniID, have, count, w.cfg.IPPerENI)
	}
	if count <= 0 {
		w.run.Violate("C06", "quota", site+"-nonpositive", "%s on %s with count %d", site, eniID, count)
	}
	switch fault {
	case "before", "before-vsw", "before-quota":
		w.run.Fault("cloud.assign." + fault)
		f.leave(site, "err "+fault)
		return nil, errOf(fault)
	}
	n := count
	if fault == "partial" && count > 1 {
		n = 1 + w.pick(count-1, "partial")
	}
	var ips []netip.Addr
	for i := 0; i < n; i++ {
		if v6 {
			ip := c.alloc6(eniID)
			e.V6 = append(e.V6, ip)
			ips = append(ips, ip)
		} else {
			ip := c.alloc4(eniID)
			e.V4 = append(e.V4, ip)
			ips = append(ips, ip)
		}
	}
	switch fault {
	case "after-all", "partial":
		w.run.Fault("cloud.assign." + fault)
		f.leave(site, fmt.Sprintf("err after effect %v", ips))
		return ips, errOf(fault)
	}
	f.leave(site, fmt.Sprintf("%v", ips))
	return ips, nil
}

func (f *simFactory) AssignNIPv4(eniID string, count int, mac string) ([]netip.Addr, error) {
	return f.assign("assign4", eniID, count, false)
}

func (f *simFactory) AssignNIPv6(eniID string, count int, mac string) ([]netip.Addr, error) {
	return f.assign("assign6", eniID, count, true)
}

func (f *simFactory) unassign(site string, eniID string, ips []netip.Addr) error {
	c, w := f.c, f.c.w
	fault := f.enter(site, fmt.Sprintf("%s %v", eniID, ips))
	e := c.enis[eniID]
	// C06: never the primary, never an address a pod holds
	w.run.Eval()
	for _, ip := range ips {
		if e != nil && ip == e.Primary {
			w.run.Violate("C06", "dispose", "unassign-primary", "%s of primary address %s of %s", site, ip, eniID)
		}
		if pod := w.ledgerHolder(ip); pod != "" {
			fp := "unassign-in-use"
			if c.recycled(ip.String()) {
				fp += "@recycled-address"
				w.k1Victim[pod] = true // what this pod sees from here on follows from known finding K1
			}
			w.run.Violate("C06", "dispose", fp, "%s of %s on %s while pod %s holds it", site, ip, eniID, pod)
		}
	}
	if fault == "before" {
		w.run.Fault("cloud.unassign.before")
		f.leave(site, "err before")
		return errOf(fault)
	}
	if e != nil {
		for _, ip := range ips {
			c.removeIP(e, ip, true)
		}
	}
	if fault == "after" {
		w.run.Fault("cloud.unassign.after")
		f.leave(site, "err after effect")
		return errOf(fault)
	}
	f.leave(site, "ok")
	return nil
}

func (f *simFactory) UnAssignNIPv4(eniID string, ips []netip.Addr, mac string) error {
	return f.unassign("unassign4", eniID, ips)
}

func (f *simFactory) UnAssignNIPv6(eniID string, ips []netip.Addr, mac string) error {
	return f.unassign("unassign6", eniID, ips)
}

func (f *simFactory) DeleteNetworkInterface(eniID string) error {
	c, w := f.c, f.c.w
	fault := f.enter("delete", eniID)
	e := c.enis[eniID]
	w.run.Eval()
	if e != nil {
		if e.Type == "trunk" || e.Type == "erdma" {
			w.run.Violate("C06", "dispose", "delete-"+e.Type, "DeleteNetworkInterface of %s interface %s", e.Type, eniID)
		}
		for _, ip := range append(append([]netip.Addr{}, e.V4...), e.V6...) {
			if pod := w.ledgerHolder(ip); pod != "" {
				w.run.Violate("C06", "dispose", "delete-in-use", "DeleteNetworkInterface of %s while pod %s holds %s", eniID, pod, ip)
			}
		}
		if f.gen == w.gen {
			if a, b := w.pendingOn(eniID); a+b > 0 {
				w.run.Violate("C06", "dispose", "delete-pending", "DeleteNetworkInterface of %s with %d+%d requests pending on it", eniID, a, b)
			}
		}
	}
	if fault == "before" {
		w.run.Fault("cloud.delete.before")
		f.leave("delete", "err before")
		return errOf(fault)
	}
	if e != nil {
		for _, ip := range e.V4 {
			delete(c.used4, ip)
			if h := c.hist[ip]; h != nil {
				h.unassignedSeq = w.run.S.SeqNo()
			}
		}
		for _, ip := range e.V6 {
			delete(c.used6, ip)
			if h := c.hist[ip]; h != nil {
				h.unassignedSeq = w.run.S.SeqNo()
			}
		}
		delete(c.enis, eniID)
	}
	if fault == "after" {
		w.run.Fault("cloud.delete.after")
		f.leave("delete", "err after effect")
		return errOf(fault)
	}
	f.leave("delete", "ok")
	return nil
}

func (f *simFactory) LoadNetworkInterface(mac string) ([]netip.Addr, []netip.Addr, error) {
	c, w := f.c, f.c.w
	fault := f.enter("load", mac)
	if fault == "err" {
		w.run.Fault("cloud.load.err")
		f.leave("load", "err")
		return nil, nil, errOf(fault)
	}
	e := c.byMAC(mac)
	if e == nil {
		// the interface is gone; the metadata lookup fails, which tells the daemon nothing
		// about individual addresses (an error is not an answer that omits them)
		f.leave("load", "not found")
		return nil, nil, fmt.Errorf("metadata: mac %s not found", mac)
	}
	seq := w.run.S.SeqNo()
	// provenance: every address once assigned to this interface and absent now has been seen removed
	for ip, h := range c.hist {
		if h.eni != e.ID || h.omittedSeq != 0 {
			continue
		}
		if (ip.Is4() && !e.has4(ip)) || (ip.Is6() && !e.has6(ip)) {
			h.omittedSeq = seq
		}
	}
	var v4, v6 []netip.Addr
	if w.cfg.v4() {
		v4 = append(v4, e.V4...)
	}
	if w.cfg.v6() {
		v6 = append(v6, e.V6...)
	}
	f.leave("load", fmt.Sprintf("%v %v", v4, v6))
	return v4, v6, nil
}

func (f *simFactory) GetAttachedNetworkInterface(preferTrunkID string) ([]*daemon.ENI, error) {
	c := f.c
	f.enter("attached", preferTrunkID)
	var out []*daemon.ENI
	ids := append([]string{}, c.order...)
	sort.Strings(ids)
	for _, id := range ids {
		e := c.enis[id]
		if e == nil || !e.Attached {
			continue
		}
		out = append(out, c.toDaemonENI(e, preferTrunkID))
	}
	f.leave("attached", fmt.Sprintf("%d", len(out)))
	return out, nil
}
