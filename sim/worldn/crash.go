package worldn

import (
	"encoding/json"
	"fmt"
	"io"
	"os"
	"path/filepath"
	"sort"
	"strings"

	"github.com/boltdb/bolt"

	"github.com/AliyunContainerService/terway/pkg/storage"
	"github.com/AliyunContainerService/terway/types/daemon"
)

func copyFile(src, dst string) error {
	in, err := os.Open(src)
	if err != nil {
		return err
	}
	defer in.Close()
	out, err := os.Create(dst)
	if err != nil {
		return err
	}
	defer out.Close()
	_, err = io.Copy(out, in)
	return err
}

// crashNow kills the daemon process at the current seam event: volatile state is lost with
// the tasks of this generation, the database files are kept exactly as written so far (what
// SIGKILL leaves: the page cache survives), the cloud is untouched.
func (w *World) crashNow(what string) {
	w.run.Fault("process.crash")
	w.run.Probe("crash@" + strings.SplitN(what, " ", 2)[0])
	w.run.S.Log("crash", "daemon killed at seam event %d (%s)", w.seamCount, what)
	w.nextDir = filepath.Join(w.dir, fmt.Sprintf("g%d", w.gen+1))
	_ = os.MkdirAll(w.nextDir, 0o755)
	for _, f := range []string{"ResRelation.db", "pod.db"} {
		if err := copyFile(filepath.Join(w.dir, f), filepath.Join(w.nextDir, f)); err != nil && !os.IsNotExist(err) {
			w.run.Res.Infra = "copy db: " + err.Error()
		}
	}
	w.crashPending = true
	w.crashWhat = what
	close(w.crashed)
	w.run.S.Kill(w.gen) // does not return when called from a task of that generation
}

// recoverFromCrash restarts the daemon from the copied files and the cloud as it is, and
// evaluates the restart oracles of C05.
func (w *World) recoverFromCrash() bool {
	w.crashPending = false
	w.crashed = make(chan struct{})
	w.pending = nil
	for _, p := range w.pods {
		p.inflight = 0
		if p.curSB >= 0 && !p.sbReady && !p.sbDead[p.curSB] {
			// a sandbox whose ADD never completed: the runtime gives up on it
			p.sbDead[p.curSB] = true
		}
	}
	w.dir = w.nextDir
	if w.cfg.Legacy {
		w.rewriteLegacy(filepath.Join(w.dir, "ResRelation.db"))
	}
	fo := w.faultsOn
	w.faultsOn = false
	err := w.startDaemon()
	w.faultsOn = fo
	if err != nil {
		w.run.Eval()
		w.run.Violate("C05", "restart", "restart-failed", "daemon cannot restart from the on-disk state left by a kill at %q: %v", w.crashWhat, err)
		return false
	}
	w.run.Probe("restart-ok")
	w.run.Eval()
	// read the records first and the pool afterwards: the restarted daemon's own GC may be
	// collecting vanished pods meanwhile (it releases the pool before it deletes the record,
	// so "owned without record" can then only be observed if it is real)
	type recView struct {
		rec daemon.PodResources
		ok  bool
	}
	recs := map[*podState]recView{}
	for _, p := range w.pods {
		r, ok := w.storedRecord(p)
		recs[p] = recView{r, ok}
	}
	st := w.poolStatus()
	for _, p := range w.pods {
		rec, hasRec := recs[p].rec, recs[p].ok
		owned := ownedBy(st, ns+"/"+p.spec.Name)
		if p.ackAdd && p.exists {
			// (1) an acknowledged ADD survives: record with the same addresses, pool ownership
			v4, v6 := "", ""
			if hasRec {
				for _, r := range rec.Resources {
					v4, v6 = recIPs(r)
				}
			}
			if !hasRec || v4 != p.ackV4 || v6 != p.ackV6 {
				w.run.Violate("C05", "durability", "acknowledged-add-lost", "pod %s had ADD acknowledged with %s/%s; after kill at %q and restart the record is present=%v %s/%s", p.spec.Name, p.ackV4, p.ackV6, w.crashWhat, hasRec, v4, v6)
			} else {
				want := []string{}
				if p.ackV4 != "" {
					want = append(want, p.ackV4)
				}
				if p.ackV6 != "" {
					want = append(want, p.ackV6)
				}
				sort.Strings(want)
				if strings.Join(owned, ",") != strings.Join(want, ",") {
					fp := "acknowledged-add-not-owned-after-restart"
					for _, q := range w.pods {
						if q == p {
							continue
						}
						if r, ok := recs[q]; ok && r.ok {
							for _, x := range r.rec.Resources {
								x4, x6 := recIPs(x)
								if (x4 != "" && x4 == p.ackV4) || (x6 != "" && x6 == p.ackV6) {
									// a record another pod left behind (its DEL released the pool but failed to delete the record) names the same address
									fp = "acknowledged-add-not-owned-after-restart@address-claimed-by-stale-record"
								}
							}
						}
					}
					w.run.Violate("C05", "durability", fp, "pod %s had ADD acknowledged with %v; after kill at %q and restart the pool shows it owning %v", p.spec.Name, want, w.crashWhat, owned)
				}
			}
		}
		if p.ackDel && hasRec {
			w.run.Violate("C05", "durability", "acknowledged-del-lost", "pod %s had DEL acknowledged; after kill at %q and restart its record is back: %v", p.spec.Name, w.crashWhat, rec.Resources)
		}
		// (4) nothing is owned without a record
		if len(owned) > 0 && !hasRec {
			w.run.Violate("C05", "reusable", "owned-without-record-after-restart", "after kill at %q and restart the pool shows %v owned by %s which has no record", w.crashWhat, owned, p.spec.Name)
		}
		// the daemon's model after restart: what the store says
		if hasRec {
			if rec.ContainerID != nil {
				p.recCID = *rec.ContainerID
			}
			for _, r := range rec.Resources {
				p.recV4, p.recV6 = recIPs(r)
			}
		} else {
			p.recCID, p.recV4, p.recV6 = "", "", ""
			p.held = false
		}
	}
	return true
}

// mirrorOracle is C05(5): the in-memory mirror equals a fresh read of the file.
func (w *World) mirrorOracle() {
	w.run.Eval()
	tmp := filepath.Join(w.dir, "mirror-check")
	_ = os.MkdirAll(tmp, 0o755)
	if err := copyFile(filepath.Join(w.dir, "ResRelation.db"), filepath.Join(tmp, "ResRelation.db")); err != nil {
		return
	}
	fresh, err := storage.NewDiskStorage("relation", filepath.Join(tmp, "ResRelation.db"), nil, resDeserializer)
	if err == nil {
		trackDB(fresh)
	}
	if err != nil {
		w.run.Violate("C05", "durability", "database-unreadable", "fresh open of the database file failed: %v", err)
		return
	}
	onDisk := map[string]string{}
	l, _ := fresh.List()
	for _, o := range l {
		r := o.(daemon.PodResources)
		onDisk[keyOf(r)] = describeRec(r)
	}
	inMem := map[string]string{}
	l2, _ := w.resDB.List()
	for _, o := range l2 {
		r := o.(daemon.PodResources)
		inMem[keyOf(r)] = describeRec(r)
	}
	if os.Getenv("VERIF_DEBUG_DISK") != "" {
		if ys, ok := w.resDB.(*yieldStorage); ok {
			live := storage.BoltDBForSim(ys.inner)
			_ = live.View(func(tx *bolt.Tx) error {
				w.run.S.Log("disk", "live txid=%d path=%s", tx.ID(), live.Path())
				return tx.Bucket([]byte("relation")).ForEach(func(k, v []byte) error { w.run.S.Log("disk", "live key %s", k); return nil })
			})
			fdb := storage.BoltDBForSim(fresh)
			_ = fdb.View(func(tx *bolt.Tx) error {
				w.run.S.Log("disk", "fresh txid=%d path=%s", tx.ID(), fdb.Path())
				return nil
			})
		}
	}
	if fmt.Sprint(onDisk) != fmt.Sprint(inMem) {
		w.run.Violate("C05", "durability", "mirror-differs-from-disk", "in-memory records %v differ from a fresh read of the file %v", inMem, onDisk)
	}
}

func describeRec(r daemon.PodResources) string {
	c := ""
	if r.ContainerID != nil {
		c = *r.ContainerID
	}
	var ips []string
	for _, x := range r.Resources {
		ips = append(ips, x.ENIID+":"+x.IPv4+"/"+x.IPv6)
	}
	st := ""
	if r.PodInfo != nil {
		st = fmt.Sprint(r.PodInfo.IPStickTime)
	}
	return c + " " + strings.Join(ips, ",") + " stick=" + st
}

// rewriteLegacy rewrites every stored record into the shape an older daemon version wrote:
// {"type":"eniIp","id":"<mac>.<ipv4>"} with no interface id and no separate address fields.
func (w *World) rewriteLegacy(path string) {
	db, err := bolt.Open(path, 0o600, nil)
	if err != nil {
		w.run.Res.Infra = "legacy rewrite: " + err.Error()
		return
	}
	defer db.Close()
	_ = db.Update(func(tx *bolt.Tx) error {
		b := tx.Bucket([]byte("relation"))
		if b == nil {
			return nil
		}
		type kv struct{ k, v []byte }
		var out []kv
		_ = b.ForEach(func(k, v []byte) error {
			var rec daemon.PodResources
			if json.Unmarshal(v, &rec) != nil {
				return nil
			}
			for i, r := range rec.Resources {
				if r.Type == daemon.ResourceTypeENIIP && r.ENIMAC != "" && r.IPv4 != "" {
					rec.Resources[i] = daemon.ResourceItem{Type: r.Type, ID: r.ENIMAC + "." + r.IPv4}
				}
			}
			nv, _ := json.Marshal(rec)
			out = append(out, kv{append([]byte{}, k...), nv})
			return nil
		})
		for _, e := range out {
			_ = b.Put(e.k, e.v)
		}
		return nil
	})
	w.run.Probe("legacy-records-at-restart")
}

// recIPs reads the addresses of a stored resource, legacy shape included.
func recIPs(r daemon.ResourceItem) (string, string) {
	if r.IPv4 == "" && r.IPv6 == "" && r.ENIID == "" {
		if i := strings.Index(r.ID, "."); i > 0 {
			return r.ID[i+1:], ""
		}
	}
	return r.IPv4, r.IPv6
}
