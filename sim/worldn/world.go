// Package worldn is World N: the node daemon in pool mode — real daemon.networkService,
// eni.Manager, eni.Local/Trunk with all workers, pkg/k8s, DiskStorage over real bolt —
// against a simulated cloud (factory.Factory), API server and CNI/runtime workload.
package worldn

import (
	"context"
	"encoding/json"
	"fmt"
	"github.com/boltdb/bolt"
	"math/rand/v2"
	"os"
	"path/filepath"
	"sort"
	"sync"
	"testing"
	"time"

	"github.com/go-logr/logr"
	corev1 "k8s.io/api/core/v1"
	metav1 "k8s.io/apimachinery/pkg/apis/meta/v1"
	k8stypes "k8s.io/apimachinery/pkg/types"
	"sigs.k8s.io/controller-runtime/pkg/client"
	logf "sigs.k8s.io/controller-runtime/pkg/log"

	terwaydaemon "github.com/AliyunContainerService/terway/daemon"
	"github.com/AliyunContainerService/terway/pkg/eni"
	"github.com/AliyunContainerService/terway/pkg/k8s"
	"github.com/AliyunContainerService/terway/pkg/storage"
	"github.com/AliyunContainerService/terway/types"
	"github.com/AliyunContainerService/terway/types/daemon"

	"verif/sim/kit"
	"verif/sim/seams"
	"verif/sim/simrt"
)

func indexOf(xs []string, x string) int {
	for i, y := range xs {
		if y == x {
			return i
		}
	}
	return -1
}

func init() {
	logf.SetLogger(logr.Discard())
}

// Config is the generated node / pool configuration.
type Config struct {
	Stack         string    `json:"stack"` // v4 | v6 | dual
	MaxENI        int       `json:"max_eni"`
	IPPerENI      int       `json:"ip_per_eni"`
	Batch         int       `json:"batch"`
	MinIdle       int       `json:"min_idle"`
	MaxIdle       int       `json:"max_idle"`
	Policy        string    `json:"policy"`
	Trunk         bool      `json:"trunk"`
	ERDMA         int       `json:"erdma"`
	PreENIs       []PreENI  `json:"pre_enis"`
	Pods          []PodSpec `json:"pods"`
	CallLatencyMs int       `json:"call_latency_ms"`
	PatchPodIPs   bool      `json:"patch_pod_ips"`
	// Recycle: the cloud hands out again, lowest first, addresses the daemon has released
	// (otherwise every assignment yields an address never seen before in the run)
	Recycle bool `json:"recycle,omitempty"`
	// Legacy: at a restart the stored records are rewritten in the shape an older daemon left
	// behind (no interface id, address only inside the resource id); IPv4-only nodes
	Legacy bool `json:"legacy,omitempty"`
}

func (c *Config) v4() bool { return c.Stack == "v4" || c.Stack == "dual" }
func (c *Config) v6() bool { return c.Stack == "v6" || c.Stack == "dual" }

type PreENI struct {
	Type string `json:"type"`
	V4   int    `json:"v4"`
	V6   int    `json:"v6"`
}

type PodSpec struct {
	Name   string `json:"name"`
	Sticky bool   `json:"sticky"`
	ERDMA  bool   `json:"erdma"`
}

// Op is one step of the workload plan.
type Op struct {
	Kind        string `json:"kind"` // add del get delpod recreate exit sleep drift gc crash barrier
	Pod         int    `json:"pod,omitempty"`
	SB          int    `json:"sb,omitempty"` // sandbox offset: 0 current, 1 previous, ...
	Async       bool   `json:"async,omitempty"`
	DelayMs     int    `json:"delay_ms,omitempty"`
	CancelSteps int    `json:"cancel_steps,omitempty"`
	DPFail      bool   `json:"dp_fail,omitempty"`
	ENI         int    `json:"eni,omitempty"`
	IP          int    `json:"ip,omitempty"`
	SleepS      int    `json:"sleep_s,omitempty"`
	CrashAt     int    `json:"crash_at,omitempty"`
}

// PlannedFault makes the nth call at a site fail in a given way.
type PlannedFault struct {
	Site string `json:"site"`
	Nth  int    `json:"nth"`
	Kind string `json:"kind"`
}

// Scenario is the explicit input of one run.
type Scenario struct {
	Profile string         `json:"profile"`
	Cfg     Config         `json:"cfg"`
	Ops     []Op           `json:"ops"`
	Faults  []PlannedFault `json:"faults,omitempty"`
	SettleS int            `json:"settle_s"`
	// CrashAtEvent > 0: the daemon is killed at that seam event and restarted (C05)
	CrashAtEvent int `json:"crash_at_event,omitempty"`
	// Strict: no faults at all, strict oracles
	Strict bool `json:"strict"`
}

// podState is the kubelet/runtime model's view of one pod.
type podState struct {
	spec     PodSpec
	uid      string
	uidGen   int
	exists   bool
	curSB    int  // index of the latest sandbox (-1: none yet)
	sbReady  bool // latest sandbox has a successful ADD and is not torn down
	sbDead   map[int]bool
	inflight int
	effOps   int // requests that got past the daemon's in-flight gate
	// reference model of C04 driven by returned results
	recCID string // container id of the latest successful ADD ("" none)
	recUID string // uid of the pod instance that made it
	recV4  string
	recV6  string
	held   bool
	// ledger (C01): addresses the pod's live sandbox holds
	liveV4, liveV6 string
	liveENI        string
	// C09 bookkeeping
	goneAtGC int // number of completed GC passes when the pod vanished (-1: present)
	// C05: what has been acknowledged to the runtime
	ackAdd       bool
	ackV4, ackV6 string
	ackDel       bool
	elsewhere    bool // an object with this name exists on another node
	leaked       bool
	leakedRec    bool
	poolIntact   bool // the daemon's pool still owns what its record for the pod names (model)
}

// World is one instantiated run.
type World struct {
	k1Victim map[string]bool // pods whose address was unassigned from under them through known finding K1
	run      *kit.Run
	sc       *Scenario
	cfg      *Config
	cloud    *Cloud
	api      *kit.SimAPI
	pods     []*podState
	dir      string

	// daemon instance
	gen      int
	ctx      context.Context
	cancel   context.CancelFunc
	svc      *terwaydaemon.SimService
	mgr      *eni.Manager
	locals   []*eni.Local
	resDB    storage.Storage
	podDB    storage.Storage
	k8s      k8s.Kubernetes
	node     *corev1.Node
	wg       sync.WaitGroup
	faultsOn bool

	faultIdx  map[string]int
	faultPlan map[string]string
	seamCount int
	crashed   chan struct{}
	gcPasses  int
	reqSeq    int
	pending   []chan struct{}

	started      bool
	storeOps     int
	crashPending bool
	nextDir      string
	crashWhat    string
	pageWrites   int
}

const nodeName = "node-1"
const ns = "default"

func (w *World) pick(n int, tag string) int { return w.run.S.Choose(n, tag) }

// faultAt consumes the fault planned for the next call at a site.
func (w *World) faultAt(site string) string {
	n := w.faultIdx[site]
	w.faultIdx[site] = n + 1
	if !w.faultsOn {
		return ""
	}
	return w.faultPlan[fmt.Sprintf("%s#%d", site, n)]
}

// seamEvent numbers the externally visible effects (crash points of C05).
func (w *World) seamEvent(what string) {
	w.seamCount++
	if w.sc.CrashAtEvent > 0 && w.seamCount == w.sc.CrashAtEvent && w.gen == 1 && w.started {
		w.crashNow(what)
	}
}

func (w *World) ledgerHolder(ip interface{ String() string }) string {
	s := ip.String()
	for _, p := range w.pods {
		if p.sbReady && (p.liveV4 == s || p.liveV6 == s) {
			return p.spec.Name
		}
	}
	return ""
}

func (w *World) pendingOn(eniID string) (int, int) {
	for _, l := range w.locals {
		if l.SimENIID() == eniID {
			return l.SimPending()
		}
	}
	return 0, 0
}

// ---------------------------------------------------------------------------------------
// building (and re-building after a crash) the daemon

type yieldStorage struct {
	w     *World
	name  string
	inner storage.Storage
}

func (y *yieldStorage) Put(key string, value interface{}) error {
	simrt.Yield("store.put")
	y.w.seamEvent("store." + y.name + ".put")
	if f := y.w.faultAt("disk." + y.name + ".put"); f != "" {
		y.w.run.Fault("disk.put.err")
		y.w.run.S.Log("store", "%s put %s -> injected error", y.name, key)
		return fmt.Errorf("injected disk error")
	}
	y.w.storeOps++
	err := y.inner.Put(key, value)
	y.w.storeOps--
	y.w.run.S.Log("store", "%s put %s -> %v", y.name, key, err)
	y.w.seamEvent("store." + y.name + ".put done")
	return err
}

func (y *yieldStorage) Get(key string) (interface{}, error) { return y.inner.Get(key) }
func (y *yieldStorage) List() ([]interface{}, error) {
	l, err := y.inner.List()
	// DiskStorage lists its in-memory mirror in Go map order: make the order seeded
	sort.SliceStable(l, func(i, j int) bool { return fmt.Sprint(keyOf(l[i])) < fmt.Sprint(keyOf(l[j])) })
	for i := len(l) - 1; i > 0; i-- {
		j := simrt.Choose(i+1, "store.list")
		l[i], l[j] = l[j], l[i]
	}
	return l, err
}

func keyOf(v interface{}) string {
	switch x := v.(type) {
	case daemon.PodResources:
		if x.PodInfo != nil {
			return x.PodInfo.Namespace + "/" + x.PodInfo.Name
		}
	}
	b, _ := json.Marshal(v)
	return string(b)
}

func (y *yieldStorage) Delete(key string) error {
	simrt.Yield("store.delete")
	y.w.seamEvent("store." + y.name + ".delete")
	if f := y.w.faultAt("disk." + y.name + ".delete"); f != "" {
		y.w.run.Fault("disk.delete.err")
		y.w.run.S.Log("store", "%s delete %s -> injected error", y.name, key)
		if y.name == "res" {
			// DEL and the pod collection release the pool before they delete the record: after a
			// failed delete the record may name what the pool no longer holds (known finding K2)
			for _, p := range y.w.pods {
				if ns+"/"+p.spec.Name == key {
					p.poolIntact = false
				}
			}
		}
		return fmt.Errorf("injected disk error")
	}
	if y.name == "res" {
		y.w.checkRecordDelete(key)
	}
	y.w.storeOps++
	err := y.inner.Delete(key)
	y.w.storeOps--
	y.w.run.S.Log("store", "%s delete %s -> %v", y.name, key, err)
	y.w.seamEvent("store." + y.name + ".delete done")
	return err
}

func resDeserializer(b []byte) (interface{}, error) {
	r := &daemon.PodResources{}
	if err := json.Unmarshal(b, r); err != nil {
		return nil, err
	}
	return *r, nil
}

func (w *World) openStores(dir string) error {
	res, err := storage.NewDiskStorage("relation", filepath.Join(dir, "ResRelation.db"), json.Marshal, resDeserializer)
	if err != nil {
		return err
	}
	trackDB(res)
	if db := storage.BoltDBForSim(res); db != nil {
		db.NoSync = true
		// simulated disk: every page write of the allocation database is a crash point
		f := db.SimFile()
		db.SimSetWriteAt(func(b []byte, off int64) (int, error) {
			w.pageWrites++
			if os.Getenv("VERIF_DEBUG_DISK") != "" {
				w.run.S.Log("disk", "page write off=%d len=%d file=%s", off, len(b), f.Name())
			}
			w.seamEvent("disk.page-write")
			return f.WriteAt(b, off)
		})
	}
	ser, de := k8s.PodCacheSerializers()
	pods, err := storage.NewDiskStorage("pods", filepath.Join(dir, "pod.db"), ser, de)
	if err != nil {
		return err
	}
	trackDB(pods)
	if db := storage.BoltDBForSim(pods); db != nil {
		db.NoSync = true
	}
	w.resDB = &yieldStorage{w: w, name: "res", inner: res}
	w.podDB = &yieldStorage{w: w, name: "pod", inner: pods}
	return nil
}

func (w *World) poolConfig() *daemon.PoolConfig {
	c := w.cfg
	return &daemon.PoolConfig{
		EnableIPv4: c.v4(), EnableIPv6: c.v6(),
		Capacity: c.MaxENI * c.IPPerENI, MaxENI: c.MaxENI, MaxIPPerENI: c.IPPerENI, BatchSize: c.Batch,
		MaxPoolSize: c.MaxIdle, MinPoolSize: c.MinIdle,
		ERdmaCapacity: c.ERDMA * c.IPPerENI,
	}
}

// startDaemon mirrors daemon/builder.go setupENIManager with the real building blocks.
func (w *World) startDaemon() error {
	w.gen++
	gen := w.gen
	w.ctx, w.cancel = context.WithCancel(context.Background())
	eni.ResetGlobalsForSim()
	if err := w.openStores(w.dir); err != nil {
		return fmt.Errorf("open stores: %w", err)
	}
	svcCIDR := &types.IPNetSet{}
	svcCIDR.SetIPNet("172.16.0.0/16")
	w.k8s = k8s.NewForSim(w.api.Client, w.podDB, daemon.ModeENIMultiIP, nodeName, "kube-system", w.node, svcCIDR, w.cfg.ERDMA > 0)
	f := &simFactory{c: w.cloud, gen: gen}
	pc := w.poolConfig()

	trunkID := ""
	if w.cfg.Trunk {
		for _, id := range w.cloud.order {
			if e := w.cloud.enis[id]; e != nil && e.Type == "trunk" && e.Attached {
				trunkID = id
			}
		}
	}
	attached, err := f.GetAttachedNetworkInterface(trunkID)
	if err != nil {
		return err
	}
	objList, err := w.resDB.List()
	if err != nil {
		return err
	}
	attachedMap := map[string]*daemon.ENI{}
	for _, a := range attached {
		attachedMap[a.ID] = a
	}
	podResources := terwaydaemon.GetPodResourcesForSim(objList)
	podResources = terwaydaemon.FilterENINotFoundForSim(podResources, attachedMap)

	var list []eni.NetworkInterface
	w.locals = nil
	normal, erdma := 0, 0
	for _, ni := range attached {
		switch {
		case w.cfg.Trunk && ni.Trunk && ni.ID == trunkID:
			lo := eni.NewLocal(ni, "trunk", f, pc)
			normal++
			w.locals = append(w.locals, lo)
			list = append(list, eni.NewTrunk(w.api.Client, lo))
		case w.cfg.ERDMA > 0 && ni.ERdma:
			erdma++
			lo := eni.NewLocal(ni, "erdma", f, pc)
			w.locals = append(w.locals, lo)
			list = append(list, lo)
		default:
			normal++
			lo := eni.NewLocal(ni, "secondary", f, pc)
			w.locals = append(w.locals, lo)
			list = append(list, lo)
		}
	}
	need := pc.MaxENI - normal
	if w.cfg.ERDMA > 0 {
		need = pc.MaxENI - w.cfg.ERDMA - normal
		for i := 0; i < w.cfg.ERDMA-erdma; i++ {
			lo := eni.NewLocal(nil, "erdma", f, pc)
			w.locals = append(w.locals, lo)
			list = append(list, lo)
		}
	}
	for i := 0; i < need; i++ {
		lo := eni.NewLocal(nil, "secondary", f, pc)
		w.locals = append(w.locals, lo)
		list = append(list, lo)
	}
	w.mgr = eni.NewManager(pc.MinPoolSize, pc.MaxPoolSize, pc.Capacity, 30*time.Second, list, daemon.EniSelectionPolicy(w.cfg.Policy), w.k8s)
	w.svc = terwaydaemon.NewSimService(w.k8s, w.resDB, w.mgr, daemon.ModeENIMultiIP, types.IPAMTypeDefault, w.cfg.v4(), w.cfg.v6(), w.cfg.PatchPodIPs)
	// the daemon's own goroutines belong to its process generation (a crash kills them)
	started := make(chan error, 1)
	mgr, dctx := w.mgr, w.ctx
	w.run.S.GoNamed("daemon-start", gen, func() {
		started <- mgr.Run(dctx, &w.wg, podResources)
	})
	if err := simrt.Recv(started); err != nil {
		return fmt.Errorf("manager run: %w", err)
	}
	seams.DeviceNumber = func(mac string) (int32, bool) {
		if e := w.cloud.byMAC(mac); e != nil && e.Attached {
			return int32(5000 + len(e.ID)*0 + indexOf(w.cloud.order, e.ID)), true
		}
		return 0, false
	}
	svc, ctx := w.svc, w.ctx
	w.run.S.GoNamed("gc-loop", gen, func() { svc.StartGCLoop(ctx) })
	return nil
}

// checkRecordDelete is the continuous part of C09: a record is only ever deleted by a DEL
// for that pod or, by GC, once the API server confirms the pod is gone.
func (w *World) checkRecordDelete(key string) {
	for _, p := range w.pods {
		if ns+"/"+p.spec.Name != key {
			continue
		}
		w.run.Eval()
		// the record belongs to the pod instance that made the last successful ADD; a namesake
		// created since is another pod (it has no record yet)
		if p.inflight == 0 && (!p.exists || (p.recUID != "" && p.recUID != p.uid)) {
			// the collection gives up the record of a pod instance that is gone: the reference
			// model of C04/C01 forgets what that instance held
			p.held = false
			p.recCID, p.recV4, p.recV6 = "", "", ""
		}
		if p.exists && p.inflight == 0 && (p.recUID == "" || p.recUID == p.uid) {
			w.run.Violate("C09", "preserve", "record-of-existing-pod-deleted", "record of pod %s deleted with no DEL in flight while the pod exists in the API server (live sandbox: %v)", p.spec.Name, p.sbReady)
		}
	}
}

// ---------------------------------------------------------------------------------------
// pods in the simulated API server

func (w *World) podObject(p *podState) *corev1.Pod {
	pod := &corev1.Pod{
		ObjectMeta: metav1.ObjectMeta{Name: p.spec.Name, Namespace: ns, UID: k8stypes.UID(p.uid)},
		Spec:       corev1.PodSpec{NodeName: nodeName, Containers: []corev1.Container{{Name: "c", Image: "i"}}},
		Status:     corev1.PodStatus{Phase: corev1.PodRunning},
	}
	if p.spec.Sticky {
		pod.OwnerReferences = []metav1.OwnerReference{{APIVersion: "apps/v1", Kind: "StatefulSet", Name: "sts", UID: "sts-uid"}}
	}
	return pod
}

func (w *World) createPodObject(p *podState) {
	if p.elsewhere {
		_ = w.api.Inner.Delete(context.Background(), &corev1.Pod{ObjectMeta: metav1.ObjectMeta{Name: p.spec.Name, Namespace: ns}})
		p.elsewhere = false
	}
	p.uidGen++
	p.uid = fmt.Sprintf("uid-%s-%d", p.spec.Name, p.uidGen)
	p.exists = true
	p.goneAtGC = -1
	if err := w.api.Inner.Create(context.Background(), w.podObject(p)); err != nil {
		panic(fmt.Sprintf("harness: create pod: %v", err))
	}
}

// movePodObject re-creates the pod (same name, new UID) on another node: for this node it is gone.
func (w *World) movePodObject(p *podState) {
	w.deletePodObject(p)
	p.uidGen++
	pod := w.podObject(p)
	pod.UID = k8stypes.UID(fmt.Sprintf("uid-%s-%d-elsewhere", p.spec.Name, p.uidGen))
	pod.Spec.NodeName = "node-2"
	_ = w.api.Inner.Create(context.Background(), pod)
	p.elsewhere = true
}

func (w *World) deletePodObject(p *podState) {
	p.exists = false
	p.goneAtGC = w.gcPasses
	_ = w.api.Inner.Delete(context.Background(), &corev1.Pod{ObjectMeta: metav1.ObjectMeta{Name: p.spec.Name, Namespace: ns}})
}

func (w *World) setPodStatus(p *podState, phase corev1.PodPhase, v4, v6 string) {
	pod := &corev1.Pod{}
	if err := w.api.Inner.Get(context.Background(), client.ObjectKey{Namespace: ns, Name: p.spec.Name}, pod); err != nil {
		return
	}
	pod.Status.Phase = phase
	pod.Status.PodIPs = nil
	if v4 != "" {
		pod.Status.PodIP = v4
		pod.Status.PodIPs = append(pod.Status.PodIPs, corev1.PodIP{IP: v4})
	}
	if v6 != "" {
		if pod.Status.PodIP == "" {
			pod.Status.PodIP = v6
		}
		pod.Status.PodIPs = append(pod.Status.PodIPs, corev1.PodIP{IP: v6})
	}
	_ = w.api.Inner.Status().Update(context.Background(), pod)
}

// ---------------------------------------------------------------------------------------
// kit.World implementation

type NodeWorld struct{}

func (NodeWorld) Name() string { return "N" }

func (NodeWorld) Components() map[string][]string {
	return map[string][]string{
		"real": {"daemon.networkService (AllocIP, ReleaseIP, GetIPInfo, gcPods, GC loop, filterENINotFound, defaultForNetConf)",
			"pkg/eni Manager, Local, Trunk incl. all workers and syncPool", "pkg/k8s (pod conversion, pod cache)", "pkg/storage DiskStorage",
			"github.com/boltdb/bolt v1.3.1 (+ exported write seam)", "controller-runtime fake client (API server)", "apimachinery wait/rate limiters on the fake clock"},
		"stub": {"factory.Factory -> SimCloud (pkg/factory/aliyun not run)", "CNI plugin + container runtime + kubelet (workload model)",
			"daemon/builder.go wiring (re-implemented from the same building blocks)", "gRPC transport (methods called directly)", "kernel (netlink calls find no link)"},
	}
}

func (NodeWorld) Decode(raw json.RawMessage) (any, error) {
	sc := &Scenario{}
	if err := json.Unmarshal(raw, sc); err != nil {
		return nil, err
	}
	return sc, nil
}

func (NodeWorld) Generate(rng *rand.Rand, prop, tier string) any {
	return generate(rng, prop, tier)
}

var runCounter int

func (NodeWorld) Run(t *testing.T, scAny any, chooser simrt.Chooser, keepLog bool) *kit.Result {
	sc := scAny.(*Scenario)
	runCounter++
	base := os.Getenv("VERIF_TMP")
	if base == "" {
		base = "/dev/shm"
	}
	dir := filepath.Join(base, fmt.Sprintf("verif-n-%d-%d", os.Getpid(), runCounter))
	_ = os.MkdirAll(dir, 0o755)
	defer os.RemoveAll(dir)
	maxSteps := 400_000
	res := kit.Execute(t, chooser, keepLog, maxSteps, func(run *kit.Run) {
		w := &World{run: run, sc: sc, cfg: &sc.Cfg, dir: dir, faultIdx: map[string]int{}, faultPlan: map[string]string{}, k1Victim: map[string]bool{}}
		w.main()
	})
	closeDBs()
	return res
}

// Expand derives the crash-point runs of C05 from a crash-free base run: one scenario per
// seam event (thorough) or a strided/random sample of them (quick).
func (NodeWorld) Expand(scAny any, base *kit.Result, prop, tier string, rng *rand.Rand) []any {
	sc := scAny.(*Scenario)
	if prop != "C05" || sc.CrashAtEvent != 0 {
		return nil
	}
	total := base.Probes["seam_events_total"]
	if total <= 0 {
		return nil
	}
	var points []int
	if tier == "thorough" {
		for k := 1; k <= total; k++ {
			points = append(points, k)
		}
	} else {
		n := min(total, 10)
		seen := map[int]bool{}
		for len(points) < n {
			k := 1 + rng.IntN(total)
			if !seen[k] {
				seen[k] = true
				points = append(points, k)
			}
		}
		sort.Ints(points)
	}
	var out []any
	for _, k := range points {
		b, _ := json.Marshal(sc)
		c := &Scenario{}
		_ = json.Unmarshal(b, c)
		c.CrashAtEvent = k
		out = append(out, c)
	}
	return out
}

func (NodeWorld) Shrink(scAny any) []any {
	sc := scAny.(*Scenario)
	var out []any
	clone := func() *Scenario {
		b, _ := json.Marshal(sc)
		c := &Scenario{}
		_ = json.Unmarshal(b, c)
		return c
	}
	// drop faults
	for i := range sc.Faults {
		c := clone()
		c.Faults = append(c.Faults[:i], c.Faults[i+1:]...)
		out = append(out, c)
	}
	// drop ops (halves first, then singles)
	if n := len(sc.Ops); n > 3 {
		c := clone()
		c.Ops = c.Ops[:n/2]
		out = append(out, c)
		c = clone()
		c.Ops = c.Ops[n/2:]
		out = append(out, c)
	}
	for i := len(sc.Ops) - 1; i >= 0; i-- {
		c := clone()
		c.Ops = append(c.Ops[:i], c.Ops[i+1:]...)
		out = append(out, c)
	}
	// simplify ops
	for i, op := range sc.Ops {
		if op.CancelSteps > 0 || op.DelayMs > 0 || op.DPFail {
			c := clone()
			c.Ops[i].CancelSteps, c.Ops[i].DelayMs, c.Ops[i].DPFail = 0, 0, false
			out = append(out, c)
		}
	}
	if sc.SettleS > 0 && sc.Profile != "C07" {
		c := clone()
		c.SettleS = 0
		out = append(out, c)
	}
	if len(sc.Cfg.PreENIs) > 0 {
		c := clone()
		c.Cfg.PreENIs = c.Cfg.PreENIs[:len(c.Cfg.PreENIs)-1]
		out = append(out, c)
	}
	return out
}

// openDBs are the bolt databases opened during the current run; they are closed after the run
// (outside the simulation), otherwise file descriptors and mapped tmpfs pages pile up over the
// hundred thousand runs of a thorough batch.
var openDBs []*bolt.DB

func trackDB(st storage.Storage) {
	if db := storage.BoltDBForSim(st); db != nil {
		openDBs = append(openDBs, db)
	}
}

func closeDBs() {
	for _, db := range openDBs {
		done := make(chan struct{})
		go func() { _ = db.Close(); close(done) }()
		select {
		case <-done:
		case <-time.After(20 * time.Millisecond):
			// a task killed inside a page write still holds bolt's lock: drop the descriptor at least
			if f := db.SimFile(); f != nil {
				_ = f.Close()
			}
		}
	}
	openDBs = nil
}
