package worldn

import (
	"context"
	"errors"
	"fmt"
	"net/netip"
	"sort"
	"strings"
	"time"

	corev1 "k8s.io/api/core/v1"
	metav1 "k8s.io/apimachinery/pkg/apis/meta/v1"
	"k8s.io/apimachinery/pkg/runtime"

	"github.com/AliyunContainerService/terway/pkg/eni"
	"github.com/AliyunContainerService/terway/rpc"
	"github.com/AliyunContainerService/terway/types"
	"github.com/AliyunContainerService/terway/types/daemon"

	"verif/sim/kit"
	"verif/sim/simrt"
)

func (w *World) main() {
	sc := w.sc
	w.cloud = newCloud(w)
	for _, f := range sc.Faults {
		w.faultPlan[fmt.Sprintf("%s#%d", f.Site, f.Nth)] = f.Kind
	}
	w.faultsOn = !sc.Strict
	w.crashed = make(chan struct{})
	w.node = &corev1.Node{ObjectMeta: metav1.ObjectMeta{Name: nodeName, UID: "node-uid"}}
	w.api = kit.NewSimAPI(w.run, types.Scheme, nil, w.node)
	w.api.Decide = func(op string, obj runtime.Object) kit.APIFault {
		switch w.faultAt("api." + op) {
		case "err":
			return kit.APIErrBefore
		case "err-after":
			return kit.APIErrAfter
		}
		return kit.APIOk
	}
	for _, pe := range w.cfg.PreENIs {
		w.cloud.newENI(pe.Type, pe.V4, pe.V6, false)
	}
	for _, ps := range w.cfg.Pods {
		p := &podState{spec: ps, curSB: -1, sbDead: map[int]bool{}, goneAtGC: -1}
		w.pods = append(w.pods, p)
		w.createPodObject(p)
	}
	w.faultsOn = false
	if err := w.startDaemon(); err != nil {
		w.run.Res.Infra = "daemon start failed: " + err.Error()
		return
	}
	w.faultsOn = !sc.Strict
	w.started = true
	for i, op := range sc.Ops {
		if w.run.Res.Infra != "" {
			return
		}
		if op.DelayMs > 0 {
			w.sleep(time.Duration(op.DelayMs) * time.Millisecond)
		}
		if w.crashPending && !w.recoverFromCrash() {
			return
		}
		w.runOp(i, op)
		if w.crashPending && !w.recoverFromCrash() {
			return
		}
	}
	w.waitOps()
	if w.crashPending && !w.recoverFromCrash() {
		return
	}
	if w.run.Res.Infra != "" {
		return
	}
	w.settle()
	if w.crashPending && !w.recoverFromCrash() {
		return
	}
	w.run.Res.Probes["seam_events_total"] = w.seamCount
	// let the daemon shut down; whatever does not exit is leaked with the bubble
	w.cancel()
	simrt.Sleep(2 * time.Second)
	if w.sc.Profile == "C05" {
		// freeze the daemon so that nothing moves under the comparison; a store operation cut
		// in the middle is not an acknowledged one, so the comparison is skipped then
		w.run.S.Kill(w.gen)
		if w.storeOps == 0 {
			w.mirrorOracle()
		}
	}
}

// waitOps waits for every request in flight (or for the daemon to crash under them).
func (w *World) waitOps() {
	for len(w.pending) > 0 {
		d := w.pending[0]
		w.pending = w.pending[1:]
		simrt.Select(false, simrt.RecvCase(d), simrt.RecvCase(w.crashed))
		if w.crashPending {
			w.pending = nil
			return
		}
	}
}

// spawn runs fn as a task of the current daemon generation and tracks it.
func (w *World) spawn(name string, async bool, fn func()) {
	done := make(chan struct{})
	w.run.S.GoNamed(name, w.gen, func() {
		defer close(done)
		fn()
	})
	if !async {
		simrt.Select(false, simrt.RecvCase(done), simrt.RecvCase(w.crashed))
	} else {
		w.pending = append(w.pending, done)
	}
}

func (w *World) runOp(i int, op Op) {
	var p *podState
	if op.Pod >= 0 && op.Pod < len(w.pods) {
		p = w.pods[op.Pod]
	}
	switch op.Kind {
	case "add":
		if p != nil {
			w.opAdd(p, op)
		}
	case "del":
		if p != nil {
			w.opDel(p, op)
		}
	case "get":
		if p != nil {
			w.opGet(p, op)
		}
	case "delpod":
		if p != nil && p.exists {
			w.killSandbox(p)
			w.run.S.Log("kubelet", "delete pod object %s", p.spec.Name)
			w.deletePodObject(p)
			p.ackAdd = false // GC may collect it at any time from now on
			p.poolIntact = false
		}
	case "move":
		if p != nil && p.exists {
			w.killSandbox(p)
			w.run.S.Log("kubelet", "pod %s rescheduled to another node", p.spec.Name)
			w.movePodObject(p)
			p.ackAdd = false
			p.poolIntact = false
			w.run.Probe("pod-moved-to-other-node")
		}
	case "recreate":
		if p != nil && !p.exists {
			w.createPodObject(p)
			// what the previous incarnation held may have been collected while the name was
			// absent; the new one holds nothing until its own ADD
			p.held = false
			w.run.S.Log("kubelet", "recreate pod %s uid=%s", p.spec.Name, p.uid)
		}
	case "exit":
		if p != nil && p.exists {
			w.killSandbox(p)
			w.setPodStatus(p, corev1.PodSucceeded, "", "")
			w.run.S.Log("kubelet", "pod %s sandbox exited", p.spec.Name)
		}
	case "sleep":
		w.sleep(time.Duration(op.SleepS) * time.Second)
	case "drift":
		w.opDrift(op)
	case "drift-eni":
		w.opDriftENI(op)
	case "gc":
		w.spawn("gc-direct", op.Async, func() { w.directGC() })
	case "barrier":
		w.waitOps()
	}
}

// sleep is interrupted by a daemon crash (the harness then restarts the daemon at once).
func (w *World) sleep(d time.Duration) {
	t := time.NewTimer(d)
	defer t.Stop()
	simrt.Select(false, simrt.RecvCase(t.C), simrt.RecvCase(w.crashed))
}

func (w *World) killSandbox(p *podState) {
	if p.curSB >= 0 {
		p.sbDead[p.curSB] = true
	}
	p.sbReady = false
	p.held = false
	p.liveV4, p.liveV6, p.liveENI = "", "", ""
}

func cid(p *podState, sb int) string { return fmt.Sprintf("%s-sb%d", p.spec.Name, sb) }

func isProcessing(err error) bool {
	var te *types.Error
	if errors.As(err, &te) {
		return te.Code == types.ErrPodIsProcessing
	}
	return false
}

// reqCtx builds the request context; with CancelSteps > 0 a canceller task cancels it after
// that many of its own scheduling steps (so the cancellation lands at a seeded point).
func (w *World) reqCtx(op Op) (context.Context, context.CancelFunc, *bool) {
	// the CNI plugin gives every request a deadline (plugin/terway: 120 s by default)
	ctx, cancel := context.WithTimeout(w.ctx, 120*time.Second)
	cancelled := new(bool)
	if op.CancelSteps > 0 && w.faultsOn {
		steps := op.CancelSteps
		w.run.S.GoNamed("canceller", 0, func() {
			for i := 0; i < steps; i++ {
				simrt.Yield("canceller")
			}
			select {
			case <-ctx.Done():
			default:
				*cancelled = true
				w.run.Fault("request.cancel")
				w.run.S.Log("cni", "request context cancelled")
				cancel()
			}
		})
	}
	return ctx, cancel, cancelled
}

// gate implements oracle C04(b): exact expectation of the 'processing' rejection.
func (w *World) gate(p *podState, what string, expectBusy bool, err error) (rejected bool) {
	w.run.Eval()
	got := isProcessing(err)
	if expectBusy && !got {
		w.run.Violate("C04", "in-flight-gate", "concurrent-request-not-rejected",
			"%s for pod %s was processed while another request for the same pod was in flight (err=%v)", what, p.spec.Name, err)
	}
	if !expectBusy && got {
		w.run.Violate("C04", "in-flight-gate", "spurious-processing-error",
			"%s for pod %s rejected as 'processing' with no other request in flight", what, p.spec.Name)
	}
	if got {
		w.run.Probe("processing-rejection")
	}
	return got
}

func (w *World) opAdd(p *podState, op Op) {
	// kubelet: retry the current sandbox if it is alive, otherwise create a new one
	sb := p.curSB
	if sb < 0 || p.sbDead[sb] {
		p.curSB++
		sb = p.curSB
	}
	gen := w.gen
	w.spawn("add:"+p.spec.Name, op.Async, func() {
		ctx, cancel, cancelled := w.reqCtx(op)
		defer cancel()
		req := &rpc.AllocIPRequest{K8SPodName: p.spec.Name, K8SPodNamespace: ns, K8SPodInfraContainerId: cid(p, sb), Netns: "/proc/1/ns/net", IfName: "eth0"}
		heldBefore, recV4, recV6 := p.held && p.recCID != "", p.recV4, p.recV6
		uidAtInvoke := p.uid
		invokeSeq := w.run.S.SeqNo()
		w.run.S.Log("cni", "ADD invoke %s cid=%s", p.spec.Name, req.K8SPodInfraContainerId)
		busy := p.inflight > 0
		p.inflight++
		p.ackDel = false
		reply, err := w.svc.AllocIP(ctx, req)
		p.inflight--
		if gen != w.gen {
			return
		}
		w.seamEvent("reply add")
		v4, v6, mac := replyIPs(reply)
		w.run.S.Log("cni", "ADD return %s cid=%s -> %s %s err=%v", p.spec.Name, req.K8SPodInfraContainerId, v4, v6, err)
		rejected := w.gate(p, "ADD", busy, err)
		if rejected {
			return
		}
		p.effOps++
		myOps := p.effOps
		if err != nil || reply == nil || !reply.Success {
			w.run.Probe("add-failed")
			// C04(d): a failed ADD hands back everything it took
			w.checkFailedAddLeak(p, myOps, err)
			if p.curSB == sb {
				w.killSandbox(p)
			}
			return
		}
		w.run.Probe("add-ok")
		p.leaked, p.leakedRec = false, false
		// daemon's view (reference model of C04)
		w.run.Eval()
		if heldBefore && (recV4 != v4 || recV6 != v6) && p.exists {
			fp := "repeated-add-different-address"
			if w.k1Victim[p.spec.Name] {
				// the address was unassigned from under the pod (K1): the daemon no longer has it
				fp += "@recycled-address"
			}
			w.run.Violate("C04", "repeat-add", fp,
				"pod %s held %s/%s and a repeated ADD returned %s/%s", p.spec.Name, recV4, recV6, v4, v6)
			w.run.Violate("C01", "stickiness", fp,
				"pod %s held %s/%s and a repeated ADD returned %s/%s", p.spec.Name, recV4, recV6, v4, v6)
		}
		p.recCID, p.recV4, p.recV6 = req.K8SPodInfraContainerId, v4, v6
		p.recUID = uidAtInvoke
		p.poolIntact = true
		w.checkNetConf(p, reply)
		w.checkProvenance(p, v4, v6, mac, invokeSeq, recV4, recV6)
		if *cancelled {
			// the client is gone: the reply is lost, the runtime kills the sandbox
			w.run.Probe("add-ok-after-cancel")
			if p.curSB == sb {
				w.killSandbox(p)
			}
			p.held = true // the daemon still holds it for the pod
			return
		}
		if p.sbDead[sb] || !p.exists {
			// the sandbox was torn down (or the pod deleted) while the ADD was in flight, or the
			// ADD was for a pod the API server no longer has: nothing is live in it
			if p.curSB == sb {
				w.killSandbox(p)
			}
			p.held = p.exists
			return
		}
		if op.DPFail {
			// datapath setup failed in the plugin: it releases and the runtime kills the sandbox
			w.run.Probe("datapath-fail")
			w.killSandbox(p)
			w.releaseIP(p, sb, "DEL(after failed setup)")
			return
		}
		// C01 exclusivity
		w.run.Eval()
		for _, q := range w.pods {
			if q == p || !q.sbReady {
				continue
			}
			if (v4 != "" && q.liveV4 == v4) || (v6 != "" && q.liveV6 == v6) {
				fp := "address-held-by-two-pods"
				if (v4 != "" && q.liveV4 == v4 && w.cloud.recycled(v4)) || (v6 != "" && q.liveV6 == v6 && w.cloud.recycled(v6)) {
					// the cloud handed this very address out, took it back and handed it out again during the run
					fp += "@recycled-address"
				}
				w.run.Violate("C01", "exclusivity", fp,
					"ADD for %s returned %s/%s while pod %s holds %s/%s", p.spec.Name, v4, v6, q.spec.Name, q.liveV4, q.liveV6)
			}
		}
		p.sbReady, p.held = true, true
		p.liveV4, p.liveV6, p.liveENI = v4, v6, mac
		p.ackAdd, p.ackV4, p.ackV6, p.ackDel = true, v4, v6, false
		w.setPodStatus(p, corev1.PodRunning, v4, v6)
	})
}

func replyIPs(reply *rpc.AllocIPReply) (v4, v6, mac string) {
	if reply == nil {
		return
	}
	for _, nc := range reply.NetConfs {
		if nc.BasicInfo != nil && nc.BasicInfo.PodIP != nil && (nc.IfName == "" || nc.IfName == "eth0") {
			v4, v6 = nc.BasicInfo.PodIP.IPv4, nc.BasicInfo.PodIP.IPv6
			if nc.ENIInfo != nil {
				mac = nc.ENIInfo.MAC
			}
		}
	}
	return
}

// releaseIP issues ReleaseIP for a sandbox and applies the C04 reference model.
func (w *World) releaseIP(p *podState, sb int, what string) {
	req := &rpc.ReleaseIPRequest{K8SPodName: p.spec.Name, K8SPodNamespace: ns, K8SPodInfraContainerId: cid(p, sb)}
	stale := p.recCID != "" && req.K8SPodInfraContainerId != p.recCID
	// counted first: reading the view below is a scheduling point, another request for the pod
	// may take effect meanwhile and must not be charged to this one
	opsBefore := p.effOps
	var before *podView
	if stale && p.exists && p.inflight == 0 {
		before = w.viewPod(p)
	}
	w.run.S.Log("cni", "%s invoke %s cid=%s", what, p.spec.Name, req.K8SPodInfraContainerId)
	busy := p.inflight > 0
	p.inflight++
	if !stale {
		p.ackAdd = false // from now on either outcome is legitimate
	}
	reply, err := w.svc.ReleaseIP(w.ctx, req)
	p.inflight--
	w.seamEvent("reply del")
	w.run.S.Log("cni", "%s return %s cid=%s err=%v", what, p.spec.Name, req.K8SPodInfraContainerId, err)
	rejected := w.gate(p, "DEL", busy, err)
	if rejected {
		return
	}
	p.effOps++
	if !stale {
		p.poolIntact = false // the pool side may be released from here on, whatever the reply says
		p.held = false
	}
	if err == nil && reply != nil && reply.Success {
		w.run.Probe("del-ok")
	}
	if stale {
		w.run.Probe("stale-del")
		// C04(a): a stale DEL neither releases nor touches the current allocation
		if before != nil && p.exists && p.effOps == opsBefore+1 {
			w.run.Eval()
			after := w.viewPod(p)
			if p.exists && p.effOps == opsBefore+1 && before.String() != after.String() && before.hasRecord {
				w.run.Violate("C04", "stale-request", "stale-del-changed-allocation",
					"stale DEL for %s (cid %s, recorded %s) changed the allocation: before %s after %s", p.spec.Name, req.K8SPodInfraContainerId, p.recCID, before, after)
			}
		}
	} else if err == nil {
		// effective DEL acknowledged: the daemon no longer holds it (unless sticky)
		if !p.spec.Sticky {
			p.recCID, p.recV4, p.recV6 = "", "", ""
			p.held = false
			if reply != nil && reply.Success && p.exists {
				p.ackDel = true
			}
		}
	}
}

func (w *World) opDel(p *podState, op Op) {
	sb := p.curSB - op.SB
	if sb < 0 {
		return
	}
	if sb == p.curSB && !p.sbDead[sb] {
		// the runtime tears the live sandbox down before calling DEL
		w.killSandbox(p)
	}
	w.spawn("del:"+p.spec.Name, op.Async, func() {
		gen := w.gen
		// CNI DEL = GetIPInfo, teardown, ReleaseIP
		w.getInfo(p, sb, "GET(del)")
		if gen != w.gen {
			return
		}
		w.releaseIP(p, sb, "DEL")
	})
}

func (w *World) opGet(p *podState, op Op) {
	sb := p.curSB - op.SB
	if sb < 0 {
		return
	}
	w.spawn("get:"+p.spec.Name, op.Async, func() { w.getInfo(p, sb, "GET") })
}

func (w *World) getInfo(p *podState, sb int, what string) {
	req := &rpc.GetInfoRequest{K8SPodName: p.spec.Name, K8SPodNamespace: ns, K8SPodInfraContainerId: cid(p, sb)}
	recCID, recV4, recV6 := p.recCID, p.recV4, p.recV6
	busy := p.inflight > 0
	p.inflight++
	reply, err := w.svc.GetIPInfo(w.ctx, req)
	p.inflight--
	w.run.S.Log("cni", "%s %s cid=%s err=%v", what, p.spec.Name, req.K8SPodInfraContainerId, err)
	rejected := w.gate(p, "GET", busy, err)
	if rejected || err != nil || reply == nil {
		return
	}
	w.run.Eval()
	var v4, v6 string
	for _, nc := range reply.NetConfs {
		if nc.BasicInfo != nil && nc.BasicInfo.PodIP != nil {
			v4, v6 = nc.BasicInfo.PodIP.IPv4, nc.BasicInfo.PodIP.IPv6
		}
	}
	if recCID != "" && req.K8SPodInfraContainerId != recCID && len(reply.NetConfs) > 0 && p.recCID == recCID {
		w.run.Violate("C04", "stale-request", "stale-get-returned-allocation",
			"GET for %s with cid %s (recorded %s) returned %s/%s", p.spec.Name, req.K8SPodInfraContainerId, recCID, v4, v6)
	}
	if recCID != "" && req.K8SPodInfraContainerId == recCID && p.recCID == recCID && len(reply.NetConfs) > 0 && (v4 != recV4 || v6 != recV6) {
		w.run.Violate("C12", "get-consistency", "get-differs-from-add",
			"GET for %s returned %s/%s, ADD had returned %s/%s", p.spec.Name, v4, v6, recV4, recV6)
	}
}

func (w *World) opDrift(op Op) {
	ids := append([]string{}, w.cloud.order...)
	var live []string
	for _, id := range ids {
		if w.cloud.enis[id] != nil {
			live = append(live, id)
		}
	}
	if len(live) == 0 || !w.faultsOn {
		return
	}
	e := w.cloud.enis[live[op.ENI%len(live)]]
	var cands []netip.Addr
	for _, ip := range e.V4 {
		if ip != e.Primary {
			cands = append(cands, ip)
		}
	}
	cands = append(cands, e.V6...)
	if len(cands) == 0 {
		return
	}
	ip := cands[op.IP%len(cands)]
	w.cloud.removeIP(e, ip, false)
	w.run.Fault("cloud.drift.ip-removed")
	w.run.S.Log("drift", "address %s removed remotely from %s", ip, e.ID)
}

// opDriftENI detaches and deletes an ordinary interface remotely (somebody else did it).
func (w *World) opDriftENI(op Op) {
	if !w.faultsOn {
		return
	}
	var live []string
	for _, id := range w.cloud.order {
		if e := w.cloud.enis[id]; e != nil && e.Type == "secondary" {
			live = append(live, id)
		}
	}
	if len(live) == 0 {
		return
	}
	e := w.cloud.enis[live[op.ENI%len(live)]]
	for _, ip := range append(append([]netip.Addr{}, e.V4...), e.V6...) {
		w.cloud.removeIP(e, ip, false)
	}
	delete(w.cloud.enis, e.ID)
	w.run.Fault("cloud.drift.eni-removed")
	w.run.S.Log("drift", "interface %s detached and deleted remotely", e.ID)
}

// ---------------------------------------------------------------------------------------
// views of the daemon's state used by oracles

type podView struct {
	hasRecord bool
	cid       string
	v4, v6    string
	owned     []string // addresses the pool shows as owned by the pod
}

func (v *podView) String() string {
	return fmt.Sprintf("{record=%v cid=%s ips=%s/%s owned=%v}", v.hasRecord, v.cid, v.v4, v.v6, v.owned)
}

func (w *World) storedRecord(p *podState) (daemon.PodResources, bool) {
	obj, err := w.resDB.Get(ns + "/" + p.spec.Name)
	if err != nil {
		return daemon.PodResources{}, false
	}
	return obj.(daemon.PodResources), true
}

func (w *World) poolStatus() []eni.Status {
	return w.mgr.Status()
}

func ownedBy(st []eni.Status, podID string) []string {
	var out []string
	for _, s := range st {
		for _, u := range s.Usage {
			if len(u) >= 2 && u[1] == podID {
				out = append(out, u[0])
			}
		}
	}
	sort.Strings(out)
	return out
}

func (w *World) viewPod(p *podState) *podView {
	v := &podView{}
	if rec, ok := w.storedRecord(p); ok {
		v.hasRecord = true
		if rec.ContainerID != nil {
			v.cid = *rec.ContainerID
		}
		for _, r := range rec.Resources {
			v.v4, v.v6 = recIPs(r)
		}
	}
	v.owned = ownedBy(w.poolStatus(), ns+"/"+p.spec.Name)
	return v
}

// checkFailedAddLeak is oracle C04(d). The daemon hands addresses back asynchronously (the
// interface's commit task may still be running when the reply is out), so a suspicious view is
// confirmed after one fake second in which no other request for the pod ran.
func (w *World) checkFailedAddLeak(p *podState, myOps int, addErr error) {
	if p.inflight != 0 {
		return
	}
	w.run.Eval()
	recV4, recV6, exists, intact := p.recV4, p.recV6, p.exists, p.poolIntact
	bad := func() (leak bool, lost string, v *podView) {
		v = w.viewPod(p)
		if p.effOps != myOps || p.inflight != 0 {
			return false, "", v // another request for the pod interleaved: not attributable
		}
		if len(v.owned) > 0 && !v.hasRecord {
			leak = true
		}
		if intact && exists && p.exists && v.hasRecord && (recV4 != "" || recV6 != "") && v.v4 == recV4 && v.v6 == recV6 {
			for _, ip := range []string{recV4, recV6} {
				if ip == "" {
					continue
				}
				found := false
				for _, o := range v.owned {
					if o == ip {
						found = true
					}
				}
				if !found && !w.cloud.recycled(ip) {
					lost = ip
				}
			}
		}
		return
	}
	leak, lost, _ := bad()
	if !leak && lost == "" {
		return
	}
	simrt.Sleep(time.Second)
	leak, lost, v := bad()
	site := "other"
	msg := fmt.Sprint(addErr)
	switch {
	case strings.Contains(msg, "injected disk error"):
		site = "resourceDB.Put"
	case strings.Contains(msg, "context canceled"), strings.Contains(msg, "ctx done"), strings.Contains(msg, "deadline"):
		site = "cancel"
	}
	if leak && !p.leaked {
		p.leaked = true
		w.run.Violate("C04", "failed-add-rollback", "failed-add-leaks-address@"+site,
			"ADD for %s failed (%v) but one fake second later the pool still shows %v owned by the pod and no record exists", p.spec.Name, addErr, v.owned)
	}
	// a failed repeated ADD took nothing new: what the pod had on record stays its own
	if lost != "" && !p.leakedRec {
		p.leakedRec = true
		w.run.Violate("C04", "failed-add-rollback", "failed-repeated-add-released-recorded-address@"+site,
			"repeated ADD for %s failed (%v); the pod's recorded address %s is no longer owned by it in the pool (owned=%v) although its record still names it", p.spec.Name, addErr, lost, v.owned)
	}
}

// checkNetConf is the C12 monitor on every successful AllocIP reply.
func (w *World) checkNetConf(p *podState, reply *rpc.AllocIPReply) {
	w.run.Eval()
	defaults, primaryIf := 0, 0
	for _, nc := range reply.NetConfs {
		if nc.DefaultRoute {
			defaults++
		}
		if nc.IfName == "" || nc.IfName == "eth0" {
			primaryIf++
		}
		if nc.BasicInfo == nil || nc.BasicInfo.PodIP == nil || nc.BasicInfo.PodCIDR == nil || nc.BasicInfo.GatewayIP == nil {
			w.run.Violate("C12", "netconf", "netconf-incomplete", "reply for %s lacks basic info: %v", p.spec.Name, nc)
			continue
		}
		chk := func(ipS, cidrS, gwS, fam string) {
			if ipS == "" {
				return
			}
			ip, err1 := netip.ParseAddr(ipS)
			pf, err2 := netip.ParsePrefix(cidrS)
			gw, err3 := netip.ParseAddr(gwS)
			if err1 != nil || err2 != nil || err3 != nil {
				w.run.Violate("C12", "netconf", "netconf-unparsable-"+fam, "reply for %s: ip=%q cidr=%q gw=%q", p.spec.Name, ipS, cidrS, gwS)
				return
			}
			if !pf.Contains(ip) {
				w.run.Violate("C12", "netconf", "netconf-ip-outside-subnet-"+fam, "reply for %s: %s not in %s", p.spec.Name, ip, pf)
			}
			if want := reservedGateway(pf); gw != want {
				w.run.Violate("C12", "netconf", "netconf-wrong-gateway-"+fam, "reply for %s: gateway %s, subnet %s reserves %s", p.spec.Name, gw, pf, want)
			}
			if gw == ip {
				w.run.Violate("C12", "netconf", "netconf-gateway-equals-ip-"+fam, "reply for %s: gateway %s equals pod address", p.spec.Name, gw)
			}
		}
		chk(nc.BasicInfo.PodIP.IPv4, nc.BasicInfo.PodCIDR.IPv4, nc.BasicInfo.GatewayIP.IPv4, "v4")
		chk(nc.BasicInfo.PodIP.IPv6, nc.BasicInfo.PodCIDR.IPv6, nc.BasicInfo.GatewayIP.IPv6, "v6")
		if w.cfg.v4() != (nc.BasicInfo.PodIP.IPv4 != "") || w.cfg.v6() != (nc.BasicInfo.PodIP.IPv6 != "") {
			w.run.Violate("C12", "netconf", "netconf-family-mismatch", "reply for %s on stack %s has ips %q/%q", p.spec.Name, w.cfg.Stack, nc.BasicInfo.PodIP.IPv4, nc.BasicInfo.PodIP.IPv6)
		}
	}
	if defaults != 1 {
		w.run.Violate("C12", "netconf", "netconf-default-route-count", "reply for %s has %d default-route interfaces", p.spec.Name, defaults)
	}
	if primaryIf < 1 {
		w.run.Violate("C12", "netconf", "netconf-no-primary-interface", "reply for %s names no primary interface", p.spec.Name)
	}
}

// reservedGateway is an independent evaluator: the third-from-last address of a subnet.
func reservedGateway(pf netip.Prefix) netip.Addr {
	pf = pf.Masked()
	b := pf.Addr().AsSlice()
	bits := len(b) * 8
	for i := pf.Bits(); i < bits; i++ {
		b[i/8] |= 1 << (7 - uint(i%8))
	}
	// last address; subtract 2
	last, _ := netip.AddrFromSlice(b)
	return last.Prev().Prev()
}

// checkProvenance is oracle C01.2, evaluated when an address enters a pod's holding.
func (w *World) checkProvenance(p *podState, v4, v6, mac string, invokeSeq int, recV4, recV6 string) {
	if p.liveV4 == v4 && p.liveV6 == v6 && p.sbReady {
		return
	}
	w.run.Eval()
	e := w.cloud.byMAC(mac)
	for _, s := range []string{v4, v6} {
		if s == "" || s == recV4 || s == recV6 {
			// an address the daemon already had recorded for this pod is judged by the
			// repeated-ADD clause only
			continue
		}
		ip := netip.MustParseAddr(s)
		h := w.cloud.hist[ip]
		if h == nil {
			w.run.Violate("C01", "provenance", "address-never-assigned", "pod %s got %s which the cloud never assigned", p.spec.Name, s)
			continue
		}
		inCloud := e != nil && e.Attached && (e.has4(ip) || e.has6(ip))
		if h.unassignedSeq > h.assignedSeq && h.unassignedSeq < invokeSeq {
			w.run.Violate("C01", "provenance", "address-unassigned-by-daemon", "pod %s got %s which the daemon had unassigned (seq %d) before the request started (seq %d)", p.spec.Name, s, h.unassignedSeq, invokeSeq)
			continue
		}
		if h.omittedSeq > h.assignedSeq && h.omittedSeq < invokeSeq {
			w.run.Violate("C01", "provenance", "address-seen-removed-by-sync", "pod %s got %s although a cloud sync answer (seq %d) had already omitted it before the request started (seq %d)", p.spec.Name, s, h.omittedSeq, invokeSeq)
			continue
		}
		if !inCloud && h.remoteGoneSeq == 0 && h.unassignedSeq == 0 {
			w.run.Violate("C01", "provenance", "address-not-on-attached-interface", "pod %s got %s on %s which the cloud does not list for an attached interface", p.spec.Name, s, mac)
		}
	}
}

// directGC runs one GC pass through the real gcPods.
func (w *World) directGC() {
	err := w.svc.GCPods(w.ctx)
	w.gcPasses++
	w.run.S.Log("gc", "direct pass done err=%v", err)
}
