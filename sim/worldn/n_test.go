package worldn

import (
	"testing"

	"verif/sim/kit"
)

func TestWorker(t *testing.T)      { kit.Worker(t, NodeWorld{}) }
func TestReplay(t *testing.T)      { kit.ReplayFile(t, NodeWorld{}) }
func TestDeterminism(t *testing.T) { kit.Determinism(t, NodeWorld{}) }
