package worldn

import (
	"fmt"
	"math/rand/v2"
)

func pickW(rng *rand.Rand, items []string, weights []int) string {
	t := 0
	for _, w := range weights {
		t += w
	}
	x := rng.IntN(t)
	for i, w := range weights {
		if x < w {
			return items[i]
		}
		x -= w
	}
	return items[len(items)-1]
}

func oneOf[T any](rng *rand.Rand, xs ...T) T { return xs[rng.IntN(len(xs))] }

var faultKinds = map[string][]string{
	"create":          {"before", "before-limit", "before-vsw", "before-quota", "after-eni", "after-all", "slow"},
	"assign4":         {"before", "before-vsw", "before-quota", "after-all", "partial", "slow"},
	"assign6":         {"before", "before-vsw", "before-quota", "after-all", "partial", "slow"},
	"unassign4":       {"before", "after", "slow"},
	"unassign6":       {"before", "after", "slow"},
	"delete":          {"before", "after"},
	"load":            {"err"},
	"api.get":         {"err"},
	"api.list":        {"err"},
	"api.patch":       {"err", "err-after"},
	"disk.res.put":    {"err"},
	"disk.res.delete": {"err"},
	"disk.pod.put":    {"err"},
}

var faultSites = []string{"create", "assign4", "assign6", "unassign4", "unassign6", "delete", "load", "api.get", "api.list", "api.patch", "disk.res.put", "disk.res.delete", "disk.pod.put"}

// generate draws one scenario. Everything that shapes the run is explicit in the result.
func generate(rng *rand.Rand, prop, tier string) *Scenario {
	thorough := tier == "thorough"
	sc := &Scenario{Profile: prop}
	c := &sc.Cfg
	c.Stack = pickW(rng, []string{"v4", "dual", "v6"}, []int{50, 30, 20})
	c.MaxENI = 1 + rng.IntN(3)
	c.IPPerENI = 2 + rng.IntN(5)
	if thorough {
		c.MaxENI = 1 + rng.IntN(4)
		c.IPPerENI = 2 + rng.IntN(9)
	}
	c.Batch = 1 + rng.IntN(5)
	if thorough && rng.IntN(3) == 0 {
		c.Batch = 1 + rng.IntN(10)
	}
	capacity := c.MaxENI * c.IPPerENI
	c.MaxIdle = rng.IntN(capacity + 1)
	if rng.IntN(4) == 0 {
		c.MaxIdle = 0
	}
	c.MinIdle = 0
	if c.MaxIdle > 0 && rng.IntN(2) == 0 {
		c.MinIdle = rng.IntN(c.MaxIdle + 1)
	}
	c.Policy = oneOf(rng, "most_ips", "least_ips")
	c.Trunk = rng.IntN(5) == 0
	if c.MaxENI >= 2 && rng.IntN(10) == 0 {
		c.ERDMA = 1
	}
	c.CallLatencyMs = oneOf(rng, 0, 0, 50, 500, 2000)
	c.PatchPodIPs = rng.IntN(4) == 0
	// address recycling by the cloud is part of C01's and C06's fault space only; elsewhere it
	// would merely echo the known finding recorded for those two
	recycle := rng.IntN(3) == 0
	c.Recycle = recycle && (prop == "C01" || prop == "C06")
	// pre-attached interfaces
	npre := rng.IntN(c.MaxENI + 1)
	for i := 0; i < npre; i++ {
		pe := PreENI{Type: "secondary", V4: 1}
		if c.v4() {
			pe.V4 = 1 + rng.IntN(c.IPPerENI)
		}
		if c.v6() {
			pe.V6 = rng.IntN(c.IPPerENI + 1)
			if c.Stack == "dual" && rng.IntN(2) == 0 {
				pe.V6 = pe.V4
			}
		}
		if c.Trunk && i == 0 {
			pe.Type = "trunk"
		} else if c.ERDMA > 0 && i == 1 {
			pe.Type = "erdma"
		}
		c.PreENIs = append(c.PreENIs, pe)
	}
	npods := 1 + rng.IntN(5)
	if thorough {
		npods = 1 + rng.IntN(10)
	}
	for i := 0; i < npods; i++ {
		ps := PodSpec{Name: fmt.Sprintf("p%d", i), Sticky: rng.IntN(5) == 0}
		if c.ERDMA > 0 && rng.IntN(4) == 0 {
			ps.ERDMA = true
		}
		c.Pods = append(c.Pods, ps)
	}
	sc.Strict = rng.IntN(4) == 0

	nops := 4 + rng.IntN(9)
	if thorough {
		nops = 8 + rng.IntN(50)
	}
	kinds := []string{"add", "del", "get", "delpod", "recreate", "exit", "sleep", "drift", "gc", "barrier", "drift-eni", "move"}
	weights := []int{40, 20, 5, 6, 4, 2, 8, 3, 3, 4, 1, 1}
	switch prop {
	case "C07":
		weights = []int{45, 20, 2, 4, 3, 1, 8, 0, 1, 4, 0, 1}
	case "C09":
		weights = []int{35, 12, 2, 14, 6, 5, 10, 2, 8, 4, 4, 6}
	case "C06":
		weights = []int{45, 22, 2, 4, 3, 1, 14, 2, 1, 4, 0, 1}
	case "C04":
		weights = []int{40, 28, 10, 4, 4, 1, 5, 1, 2, 4, 0, 1}
	case "C05":
		weights = []int{40, 20, 5, 6, 4, 2, 8, 0, 3, 4, 0, 1}
	}
	for i := 0; i < nops; i++ {
		op := Op{Kind: pickW(rng, kinds, weights), Pod: rng.IntN(npods)}
		op.Async = rng.IntN(2) == 0
		op.DelayMs = oneOf(rng, 0, 0, 0, 10, 300, 1000, 5000)
		switch op.Kind {
		case "add":
			if rng.IntN(7) == 0 {
				op.CancelSteps = 1 + rng.IntN(60)
			}
			op.DPFail = rng.IntN(12) == 0
		case "del", "get":
			op.SB = pickWInt(rng, []int{0, 1, 2}, []int{70, 25, 5})
		case "sleep":
			op.SleepS = oneOf(rng, 1, 5, 30, 120, 400, 900)
		case "drift", "drift-eni":
			op.ENI, op.IP = rng.IntN(4), rng.IntN(10)
		}
		sc.Ops = append(sc.Ops, op)
	}
	if !sc.Strict {
		// swarm: a random subset of fault sites, one rate per run
		rate := oneOf(rng, 0.05, 0.15, 0.3)
		for _, site := range faultSites {
			if rng.IntN(2) == 0 {
				continue
			}
			if prop == "C07" && (site == "disk.res.put" || site == "disk.res.delete" || site == "disk.pod.put") {
				// C07 quantifies over cloud-call errors and cancellation; disk errors belong to C04/C05
				continue
			}
			span := 12
			if prop == "C09" && (site == "api.get" || site == "api.list") {
				span = 40 // GC looks pods up one by one: lookup failures have to reach late calls too
			}
			for nth := 0; nth < span; nth++ {
				if rng.Float64() < rate {
					sc.Faults = append(sc.Faults, PlannedFault{Site: site, Nth: nth, Kind: oneOf(rng, faultKinds[site]...)})
				}
			}
		}
	}
	switch prop {
	case "C05":
		c.Legacy = c.Stack == "v4" && !c.Trunk && rng.IntN(4) == 0
		// crash points are enumerated over this run; keep drift out (restart drops records of
		// interfaces that are gone, which is a different statement)
		sc.SettleS = oneOf(rng, 0, 30, 400)
		ops := sc.Ops[:0]
		for _, op := range sc.Ops {
			if op.Kind != "drift" && op.Kind != "drift-eni" {
				ops = append(ops, op)
			}
		}
		sc.Ops = ops
	case "C07":
		sc.SettleS = 1500 + rng.IntN(1500)
	case "C09":
		sc.SettleS = 30 + rng.IntN(400)
	default:
		sc.SettleS = oneOf(rng, 0, 30, 300, 1000)
	}
	return sc
}

func pickWInt(rng *rand.Rand, items []int, weights []int) int {
	t := 0
	for _, w := range weights {
		t += w
	}
	x := rng.IntN(t)
	for i, w := range weights {
		if x < w {
			return items[i]
		}
		x -= w
	}
	return items[len(items)-1]
}
