#!/usr/bin/env python3
"""Confirm a seeded change produced by a sub-agent, run the checks against it, store it.

  tools/seeded.py <src-dir> <id> <property> <pkgdir> [--checks C01,C04] [--budget 40] [--demo file]

src-dir: directory with patch.diff + demo test + README.md (as written by the sub-agent)
Steps (all in a fresh scratch worktree of /repo's HEAD, removed afterwards):
  1. patch applies, tree builds with -tags default_build
  2. the repository's pinned suite still passes with the change (same 101 tests as BASELINE.json)
  3. the demonstration fails with the change and passes without it
then, on /repo itself: git apply, run the given checks (quick tier), git checkout -- .
Writes /verif/seeded/<id>/{patch.diff, demo files, README.md, meta.json}.
"""
import argparse, json, os, shutil, subprocess, sys, time, glob

GO126 = "/opt/veriftools/go1.26.8/bin"


def sh(cmd, cwd, env=None, timeout=3600):
    p = subprocess.run(cmd, cwd=cwd, env=env, shell=isinstance(cmd, str), stdout=subprocess.PIPE, stderr=subprocess.STDOUT, text=True, timeout=timeout)
    return p.returncode, p.stdout


def env126():
    e = dict(os.environ)
    e.update(GOFLAGS="-mod=mod", GOPROXY="off", GOSUMDB="off", GOTOOLCHAIN="local")
    e["PATH"] = GO126 + ":" + e["PATH"]
    return e


def baseline_ok(wt):
    base = set(json.load(open("/root/.vp/BASELINE.json"))["stable_pass"])
    e = dict(os.environ)
    e.update(GOFLAGS="-mod=mod", GOPROXY="off")
    rc, out = sh(["go", "test", "-mod=mod", "-json", "-vet=off", "-count=1", "-timeout", "25m", "./..."], wt, e)
    res = {}
    for l in out.splitlines():
        try:
            ev = json.loads(l)
        except Exception:
            continue
        if ev.get("Test") and ev.get("Action") in ("pass", "fail", "skip"):
            res[ev["Package"] + "::" + ev["Test"]] = ev["Action"]
    missing = sorted(t for t in base if res.get(t) != "pass")
    return len(missing) == 0, missing


def main():
    ap = argparse.ArgumentParser()
    ap.add_argument("src")
    ap.add_argument("id")
    ap.add_argument("prop")
    ap.add_argument("pkgdir")
    ap.add_argument("--checks", default="")
    ap.add_argument("--budget", type=int, default=40)
    ap.add_argument("--demo", default="zz_mut_demo_test.go")
    ap.add_argument("--skip-confirm", action="store_true")
    a = ap.parse_args()
    meta = {"id": a.id, "breaks_property": a.prop, "package": a.pkgdir, "confirmed": {}, "checks": {}}
    a.src = os.path.abspath(a.src)
    patch = os.path.join(a.src, "patch.diff")
    demo = os.path.join(a.src, a.demo)
    wt = f"/tmp/seedchk-{a.id}"
    if not a.skip_confirm:
        sh(["git", "-C", "/repo", "worktree", "remove", "--force", wt], "/")
        rc, out = sh(["git", "-C", "/repo", "worktree", "add", "-q", "--detach", wt, "HEAD"], "/")
        if rc != 0:
            print(out)
            return 2
        try:
            rc, out = sh(["git", "apply", patch], wt)
            meta["confirmed"]["patch_applies"] = rc == 0
            if rc != 0:
                print("patch does not apply:", out)
                return 1
            rc, out = sh(["go", "build", "-tags", "default_build", "./..."], wt, env126())
            meta["confirmed"]["builds"] = rc == 0
            if rc != 0:
                print("does not build:", out[-2000:])
                return 1
            ok, missing = baseline_ok(wt)
            meta["confirmed"]["pinned_suite_passes_with_change"] = ok
            if not ok:
                print("pinned suite fails with change:", missing[:5])
            # tagged tests of the touched package (informational; TestControllers needs envtest)
            rc, out = sh(["go", "test", "-tags", "default_build", "-vet=off", "-count=1", "./" + a.pkgdir + "/"], wt, env126(), timeout=900)
            fails = [l for l in out.splitlines() if l.startswith("--- FAIL")]
            meta["confirmed"]["tagged_package_tests_failing_with_change"] = fails
            shutil.copy(demo, os.path.join(wt, a.pkgdir, "zz_mut_demo_test.go"))
            rc1, out1 = sh(["go", "test", "-tags", "default_build", "-vet=off", "-count=1", "-run", "MutDemo", "./" + a.pkgdir + "/"], wt, env126(), timeout=900)
            meta["confirmed"]["demo_fails_with_change"] = rc1 != 0
            sh(["git", "checkout", "--", "."], wt)
            rc2, out2 = sh(["go", "test", "-tags", "default_build", "-vet=off", "-count=1", "-run", "MutDemo", "./" + a.pkgdir + "/"], wt, env126(), timeout=900)
            meta["confirmed"]["demo_passes_without_change"] = rc2 == 0
            if rc1 == 0 or rc2 != 0:
                print("demo does not discriminate: with", rc1, "without", rc2)
                print(out1[-1500:], out2[-1500:])
        finally:
            sh(["git", "-C", "/repo", "worktree", "remove", "--force", wt], "/")
    # run the checks against the change
    if a.checks:
        rc, out = sh(["git", "-C", "/repo", "status", "--short"], "/")
        if out.strip():
            print("/repo not clean:", out)
            return 2
        rc, out = sh(["git", "-C", "/repo", "apply", patch], "/")
        if rc != 0:
            print("cannot apply to /repo:", out)
            return 2
        try:
            for c in a.checks.split(","):
                t0 = time.time()
                rc, out = sh(["./check", c, "--budget", str(a.budget)], "/verif")
                fps = [l[4:].split(" (run")[0] for l in out.splitlines() if l.startswith("--- ")]
                meta["checks"][c] = {"exit": rc, "violations": fps, "wall_s": round(time.time() - t0)}
                print(f"{a.id}: check {c} exit={rc} {fps}")
        finally:
            sh(["git", "-C", "/repo", "checkout", "--", "."], "/")
    dst = f"/verif/seeded/{a.id}"
    os.makedirs(dst, exist_ok=True)
    if os.path.abspath(dst) != a.src:
        shutil.copy(patch, dst)
        for f in glob.glob(os.path.join(a.src, "zz_mut_demo*.go")):
            shutil.copy(f, os.path.join(dst, os.path.basename(f) + ".txt"))
        if os.path.exists(os.path.join(a.src, "README.md")):
            shutil.copy(os.path.join(a.src, "README.md"), dst)
    old = {}
    if os.path.exists(os.path.join(dst, "meta.json")):
        old = json.load(open(os.path.join(dst, "meta.json")))
    if a.skip_confirm and old:
        meta["confirmed"] = old.get("confirmed", {})
        oc = old.get("checks", {})
        oc.update(meta["checks"])
        meta["checks"] = oc
    meta["detected"] = any(v["exit"] == 1 for v in meta["checks"].values())
    json.dump(meta, open(os.path.join(dst, "meta.json"), "w"), indent=1)
    print(json.dumps(meta["confirmed"]), "detected:", meta["detected"])
    return 0


if __name__ == "__main__":
    sys.exit(main())
