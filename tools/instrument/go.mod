module verif/tools/instrument

go 1.26.0

require golang.org/x/tools v0.50.0

require (
	golang.org/x/mod v0.41.0 // indirect
	golang.org/x/sync v0.23.0 // indirect
)
