// Command instrument rewrites the synchronisation constructs of selected terway packages
// into calls of the simulator runtime (verif/sim/simrt) and writes the result, together
// with a go -overlay file, to an output directory. Nothing under the repository is touched.
//
// It refuses (exit status 2) any construct it cannot translate safely.
package main

import (
	"bytes"
	"crypto/sha256"
	"encoding/json"
	"flag"
	"fmt"
	"go/ast"
	"go/format"
	"go/token"
	"go/types"
	"os"
	"path/filepath"
	"sort"
	"strings"

	"golang.org/x/tools/go/ast/astutil"
	"golang.org/x/tools/go/packages"
)

const simrtPath = "verif/sim/simrt"

type stats struct {
	Go, Lock, Cond, Select, MapRange, ChanRange, Recv, Send, Sleep, WG, Once, Lo int
}

type rewriter struct {
	fset    *token.FileSet
	info    *types.Info
	pkg     *types.Package
	n       int
	changed bool
	seams   bool
	errs    []string
	warns   []string
	st      *stats
	simrtUsed bool

	owned    map[ast.Node]bool // comm statements of select clauses (handled by the select rewrite)
	mapRange map[*ast.RangeStmt]bool
	chRange  map[*ast.RangeStmt]bool
	labeled  map[ast.Stmt]bool
	callPlan map[*ast.CallExpr]*callPlan
	recv2    map[*ast.UnaryExpr]bool
	chanType map[ast.Expr]types.Type
}

type callPlan struct {
	fn   string   // simrt function
	recv ast.Expr // receiver operand (already with & if needed); nil for time.Sleep
}

func (r *rewriter) tmp(prefix string) *ast.Ident {
	r.n++
	return ast.NewIdent(fmt.Sprintf("_sim%s%d", prefix, r.n))
}

func (r *rewriter) errorf(pos token.Pos, format string, args ...any) {
	r.errs = append(r.errs, fmt.Sprintf("%s: %s", r.fset.Position(pos), fmt.Sprintf(format, args...)))
}

var simrtUsedGlobal *bool

func simrtCall(fn string, args ...ast.Expr) *ast.CallExpr {
	if simrtUsedGlobal != nil {
		*simrtUsedGlobal = true
	}
	return &ast.CallExpr{Fun: &ast.SelectorExpr{X: ast.NewIdent("simrt"), Sel: ast.NewIdent(fn)}, Args: args}
}

func strLit(s string) ast.Expr {
	return &ast.BasicLit{Kind: token.STRING, Value: fmt.Sprintf("%q", s)}
}

// methodTable maps fully qualified callee names to simrt functions.
var methodTable = map[string]string{
	"(*sync.Mutex).Lock":       "Lock",
	"(*sync.Mutex).Unlock":     "Unlock",
	"(*sync.Mutex).TryLock":    "TryLock",
	"(*sync.RWMutex).Lock":     "Lock",
	"(*sync.RWMutex).Unlock":   "Unlock",
	"(*sync.RWMutex).RLock":    "RLock",
	"(*sync.RWMutex).RUnlock":  "RUnlock",
	"(*sync.RWMutex).TryLock":  "TryLock",
	"(sync.Locker).Lock":       "Lock",
	"(sync.Locker).Unlock":     "Unlock",
	"(*sync.Cond).Wait":        "CondWait",
	"(*sync.Cond).Signal":      "CondSignal",
	"(*sync.Cond).Broadcast":   "CondBroadcast",
	"(*sync.WaitGroup).Wait":   "WGWait",
	"(*sync.Once).Do":          "OnceDo",
	"(*sync.RWMutex).TryRLock": "!",
	"(*sync.RWMutex).RLocker":  "!",
	"(*sync.WaitGroup).Go":     "!",
}

// seamTable maps functions of un-instrumented packages to their substitutes in verif/sim/seams.
var seamTable = map[string]string{
	"github.com/AliyunContainerService/terway/pkg/link.GetDeviceNumber": "GetDeviceNumber",
	// its ticker-vs-deadline select ties when timeout is a multiple of interval (see seams)
	"k8s.io/apimachinery/pkg/util/wait.PollUntilContextTimeout": "PollUntilContextTimeout",
}

func (r *rewriter) planCall(call *ast.CallExpr) {
	sel, ok := call.Fun.(*ast.SelectorExpr)
	if !ok {
		return
	}
	obj, _ := r.info.Uses[sel.Sel].(*types.Func)
	if obj == nil {
		return
	}
	full := obj.FullName()
	if full == "time.Sleep" {
		r.callPlan[call] = &callPlan{fn: "Sleep"}
		return
	}
	if full == "github.com/samber/lo.Values" || full == "github.com/samber/lo.Keys" {
		if len(call.Args) == 1 {
			if _, isMap := coreType(r.info.TypeOf(call.Args[0])).(*types.Map); isMap {
				fn := "LoValues"
				if strings.HasSuffix(full, "Keys") {
					fn = "LoKeys"
				}
				r.callPlan[call] = &callPlan{fn: fn}
			}
		}
		return
	}
	if sf, ok := seamTable[full]; ok {
		r.callPlan[call] = &callPlan{fn: "seam:" + sf}
		return
	}
	fn, ok := methodTable[full]
	if !ok {
		return
	}
	if fn == "!" {
		r.errorf(call.Pos(), "unsupported sync method %s", full)
		return
	}
	selection := r.info.Selections[sel]
	if selection == nil {
		r.errorf(call.Pos(), "no selection info for %s", full)
		return
	}
	// make the path through embedded fields explicit
	x := sel.X
	t := selection.Recv()
	idx := selection.Index()
	for _, i := range idx[:len(idx)-1] {
		st := structOf(t)
		if st == nil {
			r.errorf(call.Pos(), "cannot resolve embedded path for %s", full)
			return
		}
		f := st.Field(i)
		x = &ast.SelectorExpr{X: x, Sel: ast.NewIdent(f.Name())}
		t = f.Type()
	}
	// t is now the type of the operand that has the method
	var recv ast.Expr
	switch tt := t.(type) {
	case *types.Pointer:
		recv = x
	default:
		if types.IsInterface(tt) {
			recv = x
		} else {
			recv = &ast.UnaryExpr{Op: token.AND, X: x}
		}
	}
	r.callPlan[call] = &callPlan{fn: fn, recv: recv}
}

func structOf(t types.Type) *types.Struct {
	for {
		switch tt := t.(type) {
		case *types.Pointer:
			t = tt.Elem()
		case *types.Named:
			t = tt.Underlying()
		case *types.Alias:
			t = types.Unalias(tt)
		case *types.Struct:
			return tt
		default:
			return nil
		}
	}
}

func coreType(t types.Type) types.Type {
	if t == nil {
		return nil
	}
	if tp, ok := types.Unalias(t).(*types.TypeParam); ok {
		// single-type core only
		iface := tp.Constraint().Underlying().(*types.Interface)
		var core types.Type
		for i := 0; i < iface.NumEmbeddeds(); i++ {
			if u, ok := iface.EmbeddedType(i).(*types.Union); ok && u.Len() == 1 {
				core = u.Term(0).Type().Underlying()
			}
		}
		return core
	}
	return t.Underlying()
}

func hasStringer(t types.Type) bool {
	ms := types.NewMethodSet(t)
	for i := 0; i < ms.Len(); i++ {
		f := ms.At(i).Obj().(*types.Func)
		if f.Name() == "String" {
			sig := f.Type().(*types.Signature)
			if sig.Params().Len() == 0 && sig.Results().Len() == 1 {
				if b, ok := sig.Results().At(0).Type().(*types.Basic); ok && b.Kind() == types.String {
					return true
				}
			}
		}
	}
	return false
}

func hasPointerIdentity(t types.Type) bool {
	if _, isStruct := t.Underlying().(*types.Struct); isStruct && hasStringer(t) {
		// value types with a String method (netip.Addr, ...) are ordered by it
		return false
	}
	switch tt := t.Underlying().(type) {
	case *types.Pointer, *types.Chan, *types.Signature:
		return true
	case *types.Basic:
		return tt.Kind() == types.UnsafePointer
	case *types.Struct:
		for i := 0; i < tt.NumFields(); i++ {
			if hasPointerIdentity(tt.Field(i).Type()) {
				return true
			}
		}
	case *types.Array:
		return hasPointerIdentity(tt.Elem())
	}
	return false
}

func (r *rewriter) pre(c *astutil.Cursor) bool {
	switch n := c.Node().(type) {
	case *ast.SelectStmt:
		for _, cl := range n.Body.List {
			cc := cl.(*ast.CommClause)
			if cc.Comm == nil {
				continue
			}
			r.owned[cc.Comm] = true
			switch s := cc.Comm.(type) {
			case *ast.SendStmt:
				r.chanType[s.Chan] = r.info.TypeOf(s.Chan)
			case *ast.ExprStmt:
				if u, ok := unparen(s.X).(*ast.UnaryExpr); ok && u.Op == token.ARROW {
					r.owned[u] = true
				}
			case *ast.AssignStmt:
				if len(s.Rhs) == 1 {
					if u, ok := unparen(s.Rhs[0]).(*ast.UnaryExpr); ok && u.Op == token.ARROW {
						r.owned[u] = true
					}
				}
			}
		}
	case *ast.LabeledStmt:
		r.labeled[n.Stmt] = true
	case *ast.RangeStmt:
		switch ct := coreType(r.info.TypeOf(n.X)).(type) {
		case *types.Map:
			if hasPointerIdentity(ct.Key()) {
				r.warns = append(r.warns, fmt.Sprintf("%s: map range with pointer-identity key left as is", r.fset.Position(n.Pos())))
			} else {
				r.mapRange[n] = true
			}
		case *types.Chan:
			r.chRange[n] = true
		}
	case *ast.CallExpr:
		r.planCall(n)
	case *ast.AssignStmt:
		if len(n.Lhs) == 2 && len(n.Rhs) == 1 {
			if u, ok := unparen(n.Rhs[0]).(*ast.UnaryExpr); ok && u.Op == token.ARROW {
				r.recv2[u] = true
			}
		}
	case *ast.ValueSpec:
		if len(n.Names) == 2 && len(n.Values) == 1 {
			if u, ok := unparen(n.Values[0]).(*ast.UnaryExpr); ok && u.Op == token.ARROW {
				r.recv2[u] = true
			}
		}
	case *ast.SelectorExpr:
		// method values of the sync types are not supported (only calls are)
		if obj, _ := r.info.Uses[n.Sel].(*types.Func); obj != nil {
			if _, ok := methodTable[obj.FullName()]; ok {
				if call, isCall := c.Parent().(*ast.CallExpr); !isCall || call.Fun != n {
					r.errorf(n.Pos(), "method value %s not supported", obj.FullName())
				}
			}
		}
	}
	return true
}

func unparen(e ast.Expr) ast.Expr {
	for {
		p, ok := e.(*ast.ParenExpr)
		if !ok {
			return e
		}
		e = p.X
	}
}

func (r *rewriter) post(c *astutil.Cursor) bool {
	switch n := c.Node().(type) {
	case *ast.CallExpr:
		if p := r.callPlan[n]; p != nil {
			r.changed = true
			if strings.HasPrefix(p.fn, "seam:") {
				r.seams = true
				c.Replace(&ast.CallExpr{Fun: &ast.SelectorExpr{X: ast.NewIdent("simseam"), Sel: ast.NewIdent(strings.TrimPrefix(p.fn, "seam:"))}, Args: n.Args, Ellipsis: n.Ellipsis})
				return true
			}
			switch p.fn {
			case "Sleep":
				r.st.Sleep++
				c.Replace(simrtCall("Sleep", n.Args...))
			case "LoValues", "LoKeys":
				r.st.Lo++
				c.Replace(simrtCall(p.fn, n.Args...))
			case "OnceDo":
				r.st.Once++
				c.Replace(simrtCall(p.fn, append([]ast.Expr{p.recv}, n.Args...)...))
			case "WGWait":
				r.st.WG++
				c.Replace(simrtCall(p.fn, p.recv))
			case "CondWait", "CondSignal", "CondBroadcast":
				r.st.Cond++
				c.Replace(simrtCall(p.fn, p.recv))
			default:
				r.st.Lock++
				c.Replace(simrtCall(p.fn, p.recv))
			}
		}
	case *ast.UnaryExpr:
		if n.Op == token.ARROW && !r.owned[n] {
			r.changed = true
			r.st.Recv++
			fn := "Recv"
			if r.recv2[n] {
				fn = "Recv2"
			}
			c.Replace(simrtCall(fn, n.X))
		}
	case *ast.SendStmt:
		if !r.owned[n] {
			r.changed = true
			r.st.Send++
			c.Replace(&ast.ExprStmt{X: simrtCall("Block", strLit("send"), &ast.FuncLit{
				Type: &ast.FuncType{Params: &ast.FieldList{}},
				Body: &ast.BlockStmt{List: []ast.Stmt{n}},
			})})
		}
	case *ast.GoStmt:
		r.changed = true
		r.st.Go++
		c.Replace(r.rewriteGo(n))
	case *ast.SelectStmt:
		if r.labeled[n] {
			r.errorf(n.Pos(), "labelled select not supported")
			return true
		}
		r.changed = true
		r.st.Select++
		c.Replace(r.rewriteSelect(n))
	case *ast.RangeStmt:
		if r.mapRange[n] {
			if s := r.rewriteMapRange(n); s != nil {
				r.changed = true
				r.st.MapRange++
				c.Replace(s)
			}
		} else if r.chRange[n] {
			if r.labeled[n] {
				r.errorf(n.Pos(), "labelled range over channel not supported")
				return true
			}
			r.changed = true
			r.st.ChanRange++
			c.Replace(r.rewriteChanRange(n))
		}
	}
	return true
}

func (r *rewriter) isConstOrNil(e ast.Expr) bool {
	tv, ok := r.info.Types[e]
	if !ok {
		return false
	}
	return tv.Value != nil || tv.IsNil()
}

func (r *rewriter) rewriteGo(g *ast.GoStmt) ast.Stmt {
	call := g.Call
	if fl, ok := call.Fun.(*ast.FuncLit); ok && len(call.Args) == 0 {
		return &ast.ExprStmt{X: simrtCall("Go", fl)}
	}
	var pre []ast.Stmt
	fun := call.Fun
	keepInline := false
	switch f := unparen(call.Fun).(type) {
	case *ast.FuncLit:
		keepInline = true
	case *ast.Ident:
		switch r.info.Uses[f].(type) {
		case *types.Func, *types.Builtin:
			keepInline = true // package-level function or builtin
		}
	case *ast.SelectorExpr:
		if obj, ok := r.info.Uses[f.Sel].(*types.Func); ok {
			if sig, _ := obj.Type().(*types.Signature); sig != nil && sig.Recv() == nil {
				keepInline = true // pkg.Func
			}
		}
	case *ast.IndexExpr, *ast.IndexListExpr:
		keepInline = true // explicit instantiation of a generic function
	}
	if !keepInline {
		id := r.tmp("f")
		pre = append(pre, &ast.AssignStmt{Lhs: []ast.Expr{id}, Tok: token.DEFINE, Rhs: []ast.Expr{fun}})
		fun = id
	}
	args := make([]ast.Expr, len(call.Args))
	for i, a := range call.Args {
		if r.isConstOrNil(a) {
			args[i] = a
			continue
		}
		if _, isLit := a.(*ast.FuncLit); isLit {
			args[i] = a
			continue
		}
		id := r.tmp("a")
		pre = append(pre, &ast.AssignStmt{Lhs: []ast.Expr{id}, Tok: token.DEFINE, Rhs: []ast.Expr{a}})
		args[i] = id
	}
	inner := &ast.CallExpr{Fun: fun, Args: args, Ellipsis: call.Ellipsis}
	if call.Ellipsis == token.NoPos {
		inner.Ellipsis = token.NoPos
	} else {
		inner.Ellipsis = 1
	}
	goCall := &ast.ExprStmt{X: simrtCall("Go", &ast.FuncLit{
		Type: &ast.FuncType{Params: &ast.FieldList{}},
		Body: &ast.BlockStmt{List: []ast.Stmt{&ast.ExprStmt{X: inner}}},
	})}
	if len(pre) == 0 {
		return goCall
	}
	return &ast.BlockStmt{List: append(pre, goCall)}
}

func (r *rewriter) rewriteSelect(s *ast.SelectStmt) ast.Stmt {
	var pre []ast.Stmt
	var cases []ast.Expr
	hasDefault := false
	idx := r.tmp("i")
	rv := r.tmp("v")
	okv := r.tmp("ok")
	sw := &ast.SwitchStmt{Tag: idx, Body: &ast.BlockStmt{}}
	k := 0
	for _, cl := range s.Body.List {
		cc := cl.(*ast.CommClause)
		if cc.Comm == nil {
			hasDefault = true
			sw.Body.List = append(sw.Body.List, &ast.CaseClause{List: nil, Body: cc.Body})
			continue
		}
		var body []ast.Stmt
		switch comm := cc.Comm.(type) {
		case *ast.SendStmt:
			ch := r.tmp("c")
			val := r.tmp("s")
			pre = append(pre,
				&ast.AssignStmt{Lhs: []ast.Expr{ch}, Tok: token.DEFINE, Rhs: []ast.Expr{comm.Chan}})
			if r.isConstOrNil(comm.Value) {
				cases = append(cases, simrtCall("SendCase", ch, comm.Value))
			} else {
				pre = append(pre, &ast.AssignStmt{Lhs: []ast.Expr{val}, Tok: token.DEFINE, Rhs: []ast.Expr{comm.Value}})
				cases = append(cases, simrtCall("SendCase", ch, val))
			}
		case *ast.ExprStmt:
			u := unparen(comm.X).(*ast.UnaryExpr)
			ch := r.tmp("c")
			pre = append(pre, &ast.AssignStmt{Lhs: []ast.Expr{ch}, Tok: token.DEFINE, Rhs: []ast.Expr{u.X}})
			cases = append(cases, simrtCall("RecvCase", ch))
		case *ast.AssignStmt:
			u := unparen(comm.Rhs[0]).(*ast.UnaryExpr)
			ch := r.tmp("c")
			pre = append(pre, &ast.AssignStmt{Lhs: []ast.Expr{ch}, Tok: token.DEFINE, Rhs: []ast.Expr{u.X}})
			cases = append(cases, simrtCall("RecvCase", ch))
			rhs := []ast.Expr{simrtCall("RecvVal", ch, rv)}
			if len(comm.Lhs) == 2 {
				rhs = append(rhs, okv)
			}
			body = append(body, &ast.AssignStmt{Lhs: comm.Lhs, Tok: comm.Tok, Rhs: rhs})
			if comm.Tok == token.DEFINE {
				// silence "declared and not used" for variables the clause body ignores
				for _, l := range comm.Lhs {
					if id, ok := l.(*ast.Ident); ok && id.Name != "_" {
						body = append(body, &ast.AssignStmt{Lhs: []ast.Expr{ast.NewIdent("_")}, Tok: token.ASSIGN, Rhs: []ast.Expr{ast.NewIdent(id.Name)}})
					}
				}
			}
		default:
			r.errorf(cc.Pos(), "unsupported select clause")
		}
		body = append(body, cc.Body...)
		sw.Body.List = append(sw.Body.List, &ast.CaseClause{
			List: []ast.Expr{&ast.BasicLit{Kind: token.INT, Value: fmt.Sprint(k)}},
			Body: body,
		})
		k++
	}
	hd := "false"
	if hasDefault {
		hd = "true"
	}
	args := append([]ast.Expr{ast.NewIdent(hd)}, cases...)
	pre = append(pre,
		&ast.AssignStmt{Lhs: []ast.Expr{idx, rv, okv}, Tok: token.DEFINE, Rhs: []ast.Expr{simrtCall("Select", args...)}},
		&ast.AssignStmt{Lhs: []ast.Expr{ast.NewIdent("_"), ast.NewIdent("_")}, Tok: token.ASSIGN, Rhs: []ast.Expr{rv, okv}},
		sw,
	)
	return &ast.BlockStmt{List: pre}
}

func simpleExpr(e ast.Expr) bool {
	switch x := e.(type) {
	case *ast.Ident:
		return true
	case *ast.SelectorExpr:
		return simpleExpr(x.X)
	case *ast.ParenExpr:
		return simpleExpr(x.X)
	case *ast.StarExpr:
		return simpleExpr(x.X)
	}
	return false
}

func isBlank(e ast.Expr) bool {
	id, ok := e.(*ast.Ident)
	return ok && id.Name == "_"
}

func (r *rewriter) rewriteMapRange(n *ast.RangeStmt) ast.Stmt {
	if n.Tok == token.ASSIGN {
		r.errorf(n.Pos(), "map range with '=' not supported")
		return nil
	}
	if n.Key == nil && n.Value == nil {
		// for range m {...}: only the count matters
		return nil
	}
	var pre []ast.Stmt
	m := n.X
	if !simpleExpr(m) {
		if r.labeled[n] {
			r.errorf(n.Pos(), "labelled map range over a complex expression not supported")
			return nil
		}
		id := r.tmp("m")
		pre = append(pre, &ast.AssignStmt{Lhs: []ast.Expr{id}, Tok: token.DEFINE, Rhs: []ast.Expr{m}})
		m = id
	}
	key := n.Key
	if key == nil || isBlank(key) {
		key = r.tmp("k")
	}
	loop := &ast.RangeStmt{
		Key: ast.NewIdent("_"), Value: key, Tok: token.DEFINE,
		X:    simrtCall("MapKeys", m),
		Body: &ast.BlockStmt{},
	}
	if n.Value != nil && !isBlank(n.Value) {
		okv := r.tmp("ok")
		loop.Body.List = append(loop.Body.List,
			&ast.AssignStmt{Lhs: []ast.Expr{n.Value, okv}, Tok: token.DEFINE, Rhs: []ast.Expr{&ast.IndexExpr{X: m, Index: key}}},
			&ast.IfStmt{Cond: &ast.UnaryExpr{Op: token.NOT, X: okv}, Body: &ast.BlockStmt{List: []ast.Stmt{&ast.BranchStmt{Tok: token.CONTINUE}}}},
		)
	} else {
		okv := r.tmp("ok")
		loop.Body.List = append(loop.Body.List,
			&ast.IfStmt{
				Init: &ast.AssignStmt{Lhs: []ast.Expr{ast.NewIdent("_"), okv}, Tok: token.DEFINE, Rhs: []ast.Expr{&ast.IndexExpr{X: m, Index: key}}},
				Cond: &ast.UnaryExpr{Op: token.NOT, X: okv},
				Body: &ast.BlockStmt{List: []ast.Stmt{&ast.BranchStmt{Tok: token.CONTINUE}}}},
		)
	}
	loop.Body.List = append(loop.Body.List, n.Body.List...)
	if len(pre) == 0 {
		return loop
	}
	return &ast.BlockStmt{List: append(pre, loop)}
}

func (r *rewriter) rewriteChanRange(n *ast.RangeStmt) ast.Stmt {
	ch := r.tmp("c")
	okv := r.tmp("ok")
	var lhs ast.Expr = ast.NewIdent("_")
	tok := token.DEFINE
	if n.Key != nil && !isBlank(n.Key) {
		lhs = n.Key
		tok = n.Tok
	}
	var recv ast.Stmt
	if tok == token.DEFINE {
		recv = &ast.AssignStmt{Lhs: []ast.Expr{lhs, okv}, Tok: token.DEFINE, Rhs: []ast.Expr{simrtCall("Recv2", ch)}}
	} else {
		// assignment form: declare ok separately
		recv = &ast.BlockStmt{List: []ast.Stmt{}}
		r.errorf(n.Pos(), "range over channel with '=' not supported")
	}
	body := []ast.Stmt{
		recv,
		&ast.IfStmt{Cond: &ast.UnaryExpr{Op: token.NOT, X: okv}, Body: &ast.BlockStmt{List: []ast.Stmt{&ast.BranchStmt{Tok: token.BREAK}}}},
	}
	body = append(body, n.Body.List...)
	return &ast.BlockStmt{List: []ast.Stmt{
		&ast.AssignStmt{Lhs: []ast.Expr{ch}, Tok: token.DEFINE, Rhs: []ast.Expr{n.X}},
		&ast.ForStmt{Body: &ast.BlockStmt{List: body}},
	}}
}

func (r *rewriter) usesSimrt() bool {
	st := *r.st
	_ = st
	return r.simrtUsed
}

// unusedImports lists imports no identifier of the file refers to any more.
func unusedImports(f *ast.File) [][2]string {
	used := map[string]bool{}
	ast.Inspect(f, func(n ast.Node) bool {
		if sel, ok := n.(*ast.SelectorExpr); ok {
			if id, ok := sel.X.(*ast.Ident); ok {
				used[id.Name] = true
			}
		}
		return true
	})
	var out [][2]string
	for _, imp := range f.Imports {
		path := strings.Trim(imp.Path.Value, `"`)
		name := ""
		if imp.Name != nil {
			name = imp.Name.Name
			if name == "_" || name == "." {
				continue
			}
		} else {
			name = path[strings.LastIndex(path, "/")+1:]
			if path != "time" && path != "github.com/AliyunContainerService/terway/pkg/link" && path != "k8s.io/apimachinery/pkg/util/wait" {
				continue // only imports the rewrite can orphan
			}
		}
		if !used[name] {
			n := ""
			if imp.Name != nil {
				n = imp.Name.Name
			}
			out = append(out, [2]string{n, path})
		}
	}
	return out
}

// stripPositions clears positions inside freshly built subtrees so that the printer does
// not try to interleave old comments into them. (Original nodes keep theirs.)

func main() {
	repo := flag.String("repo", "/repo", "repository root")
	out := flag.String("out", "", "output directory")
	pkgList := flag.String("pkgs", "", "comma separated package dirs relative to the repo (a trailing /... is allowed)")
	tags := flag.String("tags", "default_build", "build tags")
	extra := flag.String("hooks", "", "directory with hook files: <dir>/<pkg path>/*.go are added to the overlay")
	flag.Parse()
	if *out == "" || *pkgList == "" {
		fmt.Fprintln(os.Stderr, "usage: instrument -out DIR -pkgs a,b,c")
		os.Exit(2)
	}
	var patterns []string
	for _, p := range strings.Split(*pkgList, ",") {
		patterns = append(patterns, "./"+strings.TrimPrefix(p, "./"))
	}
	cfg := &packages.Config{
		Mode: packages.NeedName | packages.NeedFiles | packages.NeedCompiledGoFiles | packages.NeedSyntax |
			packages.NeedTypes | packages.NeedTypesInfo | packages.NeedImports,
		Dir:        *repo,
		BuildFlags: []string{"-tags=" + *tags},
		Env:        append(os.Environ(), "GOFLAGS=-mod=mod", "GOPROXY=off", "GOSUMDB=off"),
	}
	pkgs, err := packages.Load(cfg, patterns...)
	if err != nil {
		fmt.Fprintln(os.Stderr, "load:", err)
		os.Exit(2)
	}
	bad := false
	for _, p := range pkgs {
		for _, e := range p.Errors {
			fmt.Fprintln(os.Stderr, "package error:", p.PkgPath, e)
			bad = true
		}
	}
	if bad {
		os.Exit(2)
	}
	overlay := map[string]string{}
	total := map[string]*stats{}
	var allErrs, allWarns []string
	digest := sha256.New()
	sort.Slice(pkgs, func(i, j int) bool { return pkgs[i].PkgPath < pkgs[j].PkgPath })
	for _, p := range pkgs {
		st := &stats{}
		total[p.PkgPath] = st
		for i, f := range p.Syntax {
			path := p.CompiledGoFiles[i]
			if !strings.HasPrefix(path, *repo+"/") || strings.HasSuffix(path, "_test.go") {
				continue
			}
			r := &rewriter{
				fset: p.Fset, info: p.TypesInfo, pkg: p.Types, st: st,
				owned: map[ast.Node]bool{}, mapRange: map[*ast.RangeStmt]bool{}, chRange: map[*ast.RangeStmt]bool{},
				labeled: map[ast.Stmt]bool{}, callPlan: map[*ast.CallExpr]*callPlan{}, recv2: map[*ast.UnaryExpr]bool{},
				chanType: map[ast.Expr]types.Type{},
			}
			simrtUsedGlobal = &r.simrtUsed
			astutil.Apply(f, r.pre, r.post)
			allErrs = append(allErrs, r.errs...)
			allWarns = append(allWarns, r.warns...)
			if !r.changed {
				continue
			}
			if r.seams {
				astutil.AddNamedImport(p.Fset, f, "simseam", "verif/sim/seams")
			}
			if r.usesSimrt() {
				astutil.AddNamedImport(p.Fset, f, "simrt", simrtPath)
			}
			for _, imp := range unusedImports(f) {
				astutil.DeleteNamedImport(p.Fset, f, imp[0], imp[1])
			}
			var buf bytes.Buffer
			// drop free-floating comments inside function bodies: freshly built nodes carry
			// no positions and the printer could misplace them; keep doc/directive comments.
			f.Comments = keepTopLevelComments(f)
			if err := format.Node(&buf, p.Fset, f); err != nil {
				allErrs = append(allErrs, fmt.Sprintf("%s: print: %v", path, err))
				continue
			}
			rel := strings.TrimPrefix(path, *repo+"/")
			dst := filepath.Join(*out, rel)
			if err := os.MkdirAll(filepath.Dir(dst), 0o755); err != nil {
				panic(err)
			}
			if err := os.WriteFile(dst, buf.Bytes(), 0o644); err != nil {
				panic(err)
			}
			overlay[path] = dst
			digest.Write([]byte(rel))
			digest.Write(buf.Bytes())
		}
	}
	if *extra != "" {
		filepath.Walk(*extra, func(path string, fi os.FileInfo, err error) error {
			if err != nil || fi.IsDir() || !strings.HasSuffix(path, ".go") {
				return nil
			}
			rel, _ := filepath.Rel(*extra, path)
			target := filepath.Join(*repo, filepath.Dir(rel), "zz_verif_"+filepath.Base(rel))
			overlay[target] = path
			b, _ := os.ReadFile(path)
			digest.Write([]byte(rel))
			digest.Write(b)
			return nil
		})
	}
	for _, w := range allWarns {
		fmt.Fprintln(os.Stderr, "warning:", w)
	}
	if len(allErrs) > 0 {
		for _, e := range allErrs {
			fmt.Fprintln(os.Stderr, "refused:", e)
		}
		os.Exit(2)
	}
	ov, _ := json.MarshalIndent(map[string]any{"Replace": overlay}, "", " ")
	if err := os.WriteFile(filepath.Join(*out, "overlay.json"), ov, 0o644); err != nil {
		panic(err)
	}
	rep, _ := json.MarshalIndent(map[string]any{"packages": total, "digest": fmt.Sprintf("%x", digest.Sum(nil)), "files": len(overlay)}, "", " ")
	os.WriteFile(filepath.Join(*out, "report.json"), rep, 0o644)
	fmt.Printf("instrumented %d files, digest %x\n", len(overlay), digest.Sum(nil)[:8])
}

// keepTopLevelComments keeps comments that lie outside function bodies (package docs,
// build constraints, declarations) and drops the rest.
func keepTopLevelComments(f *ast.File) []*ast.CommentGroup {
	type span struct{ lo, hi token.Pos }
	var bodies []span
	for _, d := range f.Decls {
		if fd, ok := d.(*ast.FuncDecl); ok && fd.Body != nil {
			bodies = append(bodies, span{fd.Body.Lbrace, fd.Body.Rbrace})
		}
		if gd, ok := d.(*ast.GenDecl); ok {
			// function literals in var initialisers
			ast.Inspect(gd, func(n ast.Node) bool {
				if fl, ok := n.(*ast.FuncLit); ok {
					bodies = append(bodies, span{fl.Body.Lbrace, fl.Body.Rbrace})
					return false
				}
				return true
			})
		}
	}
	var keep []*ast.CommentGroup
	for _, cg := range f.Comments {
		inside := false
		for _, b := range bodies {
			if cg.Pos() > b.lo && cg.End() < b.hi {
				inside = true
				break
			}
		}
		if !inside {
			keep = append(keep, cg)
		}
	}
	return keep
}
