#!/bin/bash
# re-run the checks recorded for every kept seeded change against /repo with the change applied
cd /verif
for d in seeded/*/; do
  id=$(basename $d)
  [ -n "$1" ] && [[ "$id" != $1* ]] && continue
  checks=$(python3 -c "import json;print(','.join(json.load(open('$d/meta.json'))['checks'].keys()))")
  prop=$(python3 -c "import json;print(json.load(open('$d/meta.json'))['breaks_property'])")
  pkg=$(python3 -c "import json;print(json.load(open('$d/meta.json'))['package'])")
  python3 tools/seeded.py $d $id $prop $pkg --checks "$checks" --budget ${BUDGET:-25} --skip-confirm 2>&1 | grep "check "
done
